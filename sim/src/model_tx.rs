//! Transaction model (DESIGN.md §4.1): the oracle for C05, C06, C07, C15, C18.
//! Written from the property statements.  Times are nanosecond offsets (u64 / i128).

use crate::agentapi::{fmt_ns, tid_of, Reply};
use crate::core::Violation;
use crate::gen::Creds;
use crate::refcodec::{self, Verdict};
use std::collections::BTreeSet;
use std::net::SocketAddr;

#[derive(Clone, Copy, Debug, PartialEq, Eq)]
pub enum Status {
    Live,
    Delivered,
    TimedOut,
    Cancelled,
}

#[derive(Clone, Debug)]
pub struct Tx {
    pub tid: u128,
    pub dest: SocketAddr,
    pub bytes: Vec<u8>,
    pub signed: bool,
    pub intervals_ms: Vec<u64>,
    pub final_ms: u64,
    /// retransmissions done
    pub k: usize,
    /// instant of the last transmission
    pub last: u64,
    pub sc: bool,
    pub rc: bool,
    pub status: Status,
    pub sent_at: u64,
    pub completed_at: Option<u64>,
    pub transmissions: u32,
    pub reconfigured_mid: bool,
    /// method of the request, and which integrity algorithms it carries (SHA-1, SHA-256)
    pub method: u16,
    pub req_algs: (bool, bool),
    pub req_fp: bool,
    /// remote credentials in force when the request was sent
    pub remote_at_send: Option<Creds>,
    /// cancelled, already gone from the agent's table (the id was re-used), but its
    /// TransactionCancelled report has not been seen yet
    pub report_pending: bool,
}

const MS: u64 = 1_000_000;

impl Tx {
    pub fn next_instant(&self) -> u64 {
        if self.k < self.intervals_ms.len() {
            self.last + self.intervals_ms[self.k] * MS
        } else {
            self.last + self.final_ms * MS
        }
    }
    /// When the schedule, continued from the current state with on-time polling and no
    /// cancellation, would time out.
    pub fn deadline(&self) -> u64 {
        let rest: u64 = self.intervals_ms.iter().skip(self.k).sum();
        self.last + (rest + self.final_ms) * MS
    }
    pub fn is_due(&self, now: u64) -> bool {
        self.rc || self.next_instant() <= now
    }
}

#[derive(Clone, Debug, PartialEq, Eq)]
pub enum PollOutcome {
    Wait,
    Retransmit(u128),
    TimedOut(u128),
    Cancelled(u128),
}

pub struct Model {
    pub tcp: bool,
    pub local: SocketAddr,
    pub txs: Vec<Tx>,
    pub validated: BTreeSet<SocketAddr>,
    pub remote: Option<Creds>,
    /// (instant of the poll, announced wake-up) while still binding
    pub last_wait: Option<(u64, i128)>,
    /// a forged / unknown response was dropped since `last_wait` was recorded
    pub dropped_since_wait: bool,
    /// property under check: discrepancies in clauses of *other* properties are tolerated where
    /// the model can simply follow the agent (they are counted, not reported), so that the
    /// clauses of the property under check stay observable for the rest of the run
    pub check_prop: String,
    pub tolerated: Vec<&'static str>,
    /// every instant handed to `send` / `poll` so far, with the transaction (index) the call was
    /// about: the new transaction of a `send`, the one a `poll` retransmitted; `None` for a refused
    /// send, a non-request, a poll that answered anything else.  Used by C20's leak clause.
    pub instants: Vec<(u64, Option<usize>)>,
    /// set by the driver before `on_poll` when a `TransactionCancelled(id)` is ambiguous (see there):
    /// whether the live transaction with that id is gone from the agent
    pub hint_live_gone: Option<bool>,
    /// instant of the most recent `poll`
    pub last_poll: Option<u64>,
    /// the latest instant handed to the agent by any call that carries one (poll or send)
    pub last_seen: Option<u64>,
}

fn v(p: &str, clause: &str, site: &str, m: String) -> Violation {
    Violation::new(p, clause, site, m)
}

pub fn default_schedule(tcp: bool) -> (Vec<u64>, u64) {
    if tcp {
        (vec![], 39_500)
    } else {
        (vec![500, 1000, 2000, 4000, 8000, 16000], 8000)
    }
}

pub fn configured_schedule(tcp: bool, rto_ms: u64, n: u32, last_ms: u64) -> (Vec<u64>, u64) {
    let ivs: Vec<u64> = (0..n).map(|i| rto_ms << i).collect();
    if tcp {
        (vec![], last_ms + ivs.iter().sum::<u64>())
    } else {
        (ivs, last_ms)
    }
}

impl Model {
    pub fn new(tcp: bool, local: SocketAddr) -> Self {
        Self { tcp, local, txs: vec![], validated: BTreeSet::new(), remote: None, last_wait: None, dropped_since_wait: false, check_prop: String::new(), tolerated: vec![], instants: vec![], hint_live_gone: None, last_poll: None, last_seen: None }
    }
    pub fn live_idx(&self, tid: u128) -> Option<usize> {
        self.txs.iter().position(|t| t.tid == tid && t.status == Status::Live)
    }
    pub fn live(&self) -> impl Iterator<Item = &Tx> {
        self.txs.iter().filter(|t| t.status == Status::Live)
    }
    pub fn live_count(&self) -> usize {
        self.live().count()
    }
    pub fn ever_used(&self, tid: u128) -> bool {
        self.txs.iter().any(|t| t.tid == tid)
    }
    pub fn min_next(&self) -> Option<u64> {
        self.live().map(|t| if t.rc { 0 } else { t.next_instant() }).min()
    }
    /// A discrepancy the model can follow: an error only if it belongs to the property under check.
    fn soft(&mut self, viol: Violation, key: &'static str) -> Result<(), Violation> {
        if self.check_prop.is_empty() || viol.property == self.check_prop {
            Err(viol)
        } else {
            self.tolerated.push(key);
            Ok(())
        }
    }
    fn note_instant(&mut self, at: u64, owner: Option<usize>) {
        self.last_seen = Some(self.last_seen.map_or(at, |p| p.max(at)));
        if self.instants.len() >= 96 {
            self.instants.drain(..32);
        }
        self.instants.push((at, owner));
    }
    /// C20, last sentence ("instants passed to one call do not leak into another transaction's
    /// schedule"), model-based: called only when a `WaitUntil(t)` disagrees with the model.  The
    /// disagreement is a *leak* — and so C20's business rather than C06's — exactly when `t` is some
    /// outstanding transaction's current interval counted from an instant that was handed to a call
    /// that was not about that transaction, instead of from its own last transmission.
    fn leak_explanation(&self, t: i128) -> Option<String> {
        // a wake-up that is some outstanding transaction's own, correct, next instant is not a leak
        // (it may still be the wrong minimum: C06's business)
        if self.live().any(|tx| !tx.rc && !tx.sc && tx.next_instant() as i128 == t) {
            return None;
        }
        for (i, tx) in self.txs.iter().enumerate() {
            if tx.status != Status::Live || tx.rc {
                continue;
            }
            let iv = (if tx.k < tx.intervals_ms.len() { tx.intervals_ms[tx.k] } else { tx.final_ms }) * MS;
            for &(x, owner) in self.instants.iter().rev() {
                if owner == Some(i) || x == tx.last {
                    continue;
                }
                if x as i128 + iv as i128 == t {
                    return Some(format!("WaitUntil(+{}) is transaction {:#x}'s current interval ({} ms) counted from +{}, an instant that was handed to a call that was not about this transaction; its own last transmission was at +{}", fmt_ns(t), tx.tid, iv / MS, fmt_ns(x as i128), fmt_ns(tx.last as i128)));
                }
            }
        }
        None
    }
    /// Completed as far as the application's clock is concerned, report not yet seen: cancelled by
    /// the application, or past its whole schedule as of the latest poll (an agent may retire every
    /// expired request in one sweep and hand out the reports one per call).  In that window no
    /// property says whether the transaction still counts as outstanding: queries, the mutable
    /// handle, a response and a re-use of the id may all go either way.
    /// (Round 5, fifth white-box review: "as of the latest poll" became "as of the latest instant the
    /// agent was told, by poll or by send" — an agent may sweep on either; and a transaction whose
    /// retransmissions were cancelled is over, as far as any property says, as soon as the wait it
    /// was in has elapsed, whatever its retransmission count.)
    pub fn in_limbo(&self, i: usize) -> bool {
        self.in_limbo_at(i, None)
    }
    /// `now`: the instant carried by the call being judged (it has been handed to the agent too)
    pub fn in_limbo_at(&self, i: usize, now: Option<u64>) -> bool {
        let tx = &self.txs[i];
        let seen = match (self.last_poll.max(now), self.last_seen) {
            (Some(a), Some(b)) => Some(a.max(b)),
            (a, b) => a.or(b),
        };
        tx.status == Status::Live && (tx.rc || ((tx.sc || tx.k >= tx.intervals_ms.len()) && seen.map_or(false, |p| tx.next_instant() <= p)))
    }
    /// A `TransactionCancelled(tid)` could belong to either of two transactions with this id.
    pub fn ambiguous_cancel(&self, tid: u128) -> bool {
        self.txs.iter().any(|t| t.tid == tid && t.report_pending && t.status == Status::Cancelled) && self.live_idx(tid).map_or(false, |i| self.txs[i].sc && !self.txs[i].rc)
    }
    /// A `TransactionTimedOut(tid)` could be the owed report of an earlier transaction with this id
    /// or the time-out of the live one (itself past its schedule).
    pub fn ambiguous_timeout(&self, tid: u128, now: u64) -> bool {
        self.txs.iter().any(|t| t.tid == tid && t.report_pending && (t.status == Status::TimedOut || (t.sc && !t.rc))) && self.live_idx(tid).map_or(false, |i| { let t = &self.txs[i]; !t.rc && t.k >= t.intervals_ms.len() && t.next_instant() <= now })
    }
    fn invalidate_wait(&mut self) {
        self.last_wait = None;
        self.dropped_since_wait = false;
    }

    // -------------------------------------------------------------------------------------------
    pub fn on_send_request(&mut self, tid: u128, dest: SocketAddr, bytes: &[u8], signed: bool, now: u64, reply: &Reply) -> Result<(), Violation> {
        if let Some(i) = self.live_idx(tid) {
            if self.in_limbo_at(i, Some(now)) && matches!(reply, Reply::Transmit { .. }) {
                // the transaction was cancelled and only its report is still owed: whether it still
                // counts as outstanding in that window is not stated by any property.  An agent that
                // accepts the id again has, for the model, completed the old transaction (its
                // TransactionCancelled report may still come).
                self.txs[i].status = if self.txs[i].rc || self.txs[i].sc { Status::Cancelled } else { Status::TimedOut };
                self.txs[i].completed_at = Some(now);
                self.txs[i].report_pending = true;
                // fall through: the send is treated as the send of a fresh request
            } else {
            self.note_instant(now, None);
            return match reply {
                // any error is a refusal (which variant, and how it prints, is not the property's business)
                Reply::SendErr(_) => Ok(()),
                o => Err(v("C05", "duplicate_id_refused", "send", format!("send of a request whose id {tid:#x} is outstanding answered {}", o.short()))),
            };
            }
        }
        // C20, last sentence: with other transactions outstanding, a send must still be answered with
        // its own transmission (the instant passed to it must not be applied to the others)
        if self.check_prop == "C20" && self.live_count() > 0 {
            let own = matches!(reply, Reply::Transmit { data, .. } if data == bytes);
            if !own {
                return Err(v("C20", "no_instant_leak", "send", format!("send of request {tid:#x} at +{} while {} other transaction(s) were outstanding answered {} instead of its own initial transmission", fmt_ns(now as i128), self.live_count(), reply.short())));
            }
        }
        // what the model books as "the request": the serialisation handed to send — unless, while
        // another property than C18 is under check, the agent put other bytes on the wire.  Then the
        // model follows the agent (C18's business) and the request is what was *transmitted*: C07
        // speaks of a request that "carried an integrity attribute", and what carried it is the wire.
        let mut bytes = bytes;
        let mut signed = signed;
        match reply {
            Reply::Transmit { data, from, to, tcp } => {
                if data != bytes {
                    self.soft(v("C18", "initial_bytes", "send", format!("initial transmission differs from the serialised request ({}B vs {}B)", data.len(), bytes.len())), "foreign.C18.initial_bytes")?;
                    if let Verdict::Accept(view) = refcodec::decode(data) {
                        signed = view.all.iter().any(|a| a.ty == refcodec::MI || a.ty == refcodec::MI256);
                    }
                    bytes = data;
                }
                if *from != self.local || *to != dest || *tcp != self.tcp {
                    return Err(v("C18", "initial_addressing", "send", format!("initial transmission {from}->{to} tcp={tcp}, expected {}->{dest} tcp={}", self.local, self.tcp)));
                }
            }
            o => return Err(v("C05", "send_accepted", "send", format!("send of a fresh request answered {}", o.short()))),
        }
        let (ivs, fin) = default_schedule(self.tcp);
        self.txs.push(Tx {
            tid,
            dest,
            bytes: bytes.to_vec(),
            signed,
            intervals_ms: ivs,
            final_ms: fin,
            k: 0,
            last: now,
            sc: false,
            rc: false,
            status: Status::Live,
            sent_at: now,
            completed_at: None,
            transmissions: 1,
            reconfigured_mid: false,
            method: if bytes.len() >= 2 { refcodec::method_of(((bytes[0] as u16) << 8) | bytes[1] as u16) } else { 0 },
            req_algs: match refcodec::decode(bytes) {
                Verdict::Accept(view) => (view.all.iter().any(|a| a.ty == refcodec::MI), view.all.iter().any(|a| a.ty == refcodec::MI256)),
                _ => (false, false),
            },
            req_fp: matches!(refcodec::decode(bytes), Verdict::Accept(view) if view.all.last().map(|a| a.ty) == Some(refcodec::FP)),
            remote_at_send: self.remote.clone(),
            report_pending: false,
        });
        let idx = self.txs.len() - 1;
        self.note_instant(now, Some(idx));
        self.invalidate_wait();
        Ok(())
    }

    pub fn on_send_other(&mut self, dest: SocketAddr, bytes: &[u8], now: u64, reply: &Reply) -> Result<(), Violation> {
        self.note_instant(now, None);
        match reply {
            Reply::Transmit { data, from, to, tcp } => {
                if data != bytes {
                    return Err(v("C18", "nonrequest_bytes", "send", "indication/response transmitted with different bytes".into()));
                }
                if *from != self.local || *to != dest || *tcp != self.tcp {
                    return Err(v("C18", "nonrequest_addressing", "send", format!("indication/response transmitted {from}->{to}")));
                }
                Ok(())
            }
            o => Err(v("C18", "nonrequest_sent", "send", format!("send of a non-request answered {}", o.short()))),
        }
    }

    // -------------------------------------------------------------------------------------------
    pub fn on_poll(&mut self, now: u64, reply: &Reply) -> Result<PollOutcome, Violation> {
        // (instants may arrive out of order: "the latest poll" is the latest by instant)
        self.last_poll = Some(self.last_poll.map_or(now, |p| p.max(now)));
        self.last_seen = Some(self.last_seen.map_or(now, |p| p.max(now)));
        // self-consistency with the previous WaitUntil (model-free)
        if let Some((p, t)) = self.last_wait {
            if self.live_count() > 0 {
                let prop = if self.dropped_since_wait { "C07" } else { "C06" };
                let clause = if self.dropped_since_wait { "drop_left_timing_unchanged" } else { "wait_self_consistent" };
                let key = if self.dropped_since_wait { "foreign.C07.drop_left_timing_unchanged" } else { "foreign.C06.wait_self_consistent" };
                if (now as i128) < t {
                    if *reply != Reply::Wait(t) {
                        self.soft(v(prop, clause, "early_poll", format!("poll at +{} answered WaitUntil(+{}); polling again earlier, at +{}, answered {} instead of the same instant", fmt_ns(p as i128), fmt_ns(t), fmt_ns(now as i128), reply.short())), key)?;
                    }
                } else if matches!(reply, Reply::Wait(_)) {
                    self.soft(v(prop, clause, "poll_at_wakeup", format!("poll at +{} answered WaitUntil(+{}); polling at +{} (not earlier than that) answered {} instead of an event", fmt_ns(p as i128), fmt_ns(t), fmt_ns(now as i128), reply.short())), key)?;
                }
            }
        }
        match reply {
            Reply::Wait(t) => {
                let mut m1: Option<u64> = None;
                let mut any_sc = false;
                let mut pending: Vec<(Violation, &'static str)> = vec![];
                for tx in self.live() {
                    if tx.rc {
                        pending.push((v("C05", "cancel_reported", "poll", format!("transaction {:#x} was cancelled but poll answered {}", tx.tid, reply.short())), "foreign.C05.cancel_reported"));
                        continue;
                    }
                    if tx.sc {
                        // when a transaction whose retransmissions were cancelled completes is not
                        // stated by any property (only that it does, exactly once: the drain's bound)
                        any_sc = true;
                        continue;
                    }
                    if tx.next_instant() <= now {
                        pending.push((v("C06", "due_served", "poll", format!("transaction {:#x} needs service at +{} (k={}) but poll at +{} answered {}", tx.tid, fmt_ns(tx.next_instant() as i128), tx.k, fmt_ns(now as i128), reply.short())), "foreign.C06.due_served"));
                    }
                    m1 = Some(m1.map_or(tx.next_instant(), |m| m.min(tx.next_instant())));
                }
                let had_pending = !pending.is_empty();
                for (viol, key) in pending {
                    self.soft(viol, key)?;
                }
                if self.live_count() > 0 {
                    let ok = if !any_sc {
                        Some(*t) == m1.map(|m| m as i128)
                    } else {
                        // with send-cancelled transactions around, the wake-up may be theirs: any
                        // instant after now and not later than the others' earliest need
                        let within_sc = *t > now as i128;
                        (Some(*t) == m1.map(|m| m as i128)) || (within_sc && m1.map_or(true, |m| *t <= m as i128))
                    };
                    if self.check_prop == "C20" && (!ok || had_pending) {
                        if let Some(msg) = self.leak_explanation(*t) {
                            return Err(v("C20", "no_instant_leak", "poll", msg));
                        }
                    }
                    if !ok && !had_pending {
                        self.soft(v("C06", "wait_value", "poll", format!("poll at +{} answered WaitUntil(+{}) but the earliest instant at which an outstanding transaction needs service is {}", fmt_ns(now as i128), fmt_ns(*t), m1.map(|m| format!("+{}", fmt_ns(m as i128))).unwrap_or("(send-cancelled only)".into()))), "foreign.C06.wait_value")?;
                    }
                    self.last_wait = Some((now, *t));
                    self.dropped_since_wait = false;
                } else {
                    self.invalidate_wait();
                }
                self.note_instant(now, None);
                Ok(PollOutcome::Wait)
            }
            Reply::Transmit { data, from, to, tcp } => {
                // which transaction is this for?  exact bytes of a live one first, then by id
                let by_bytes = self.txs.iter().position(|tx| tx.status == Status::Live && tx.bytes == *data);
                let idx = match by_bytes {
                    Some(i) => Some(i),
                    None => tid_of(data).and_then(|tid| self.txs.iter().rposition(|tx| tx.tid == tid)),
                };
                let Some(i) = idx else {
                    return Err(v("C18", "retransmit_bytes", "poll", "poll produced a transmission that matches no request ever sent".into()));
                };
                let tid = self.txs[i].tid;
                if self.txs[i].status != Status::Live {
                    return Err(v("C05", "no_transmission_after_completion", "poll", format!("poll produced a transmission for transaction {tid:#x} which already completed ({:?})", self.txs[i].status)));
                }
                if self.txs[i].bytes != *data {
                    self.soft(v("C18", "retransmit_bytes", "poll", format!("retransmission of {tid:#x} differs from the serialised request ({}B vs {}B)", data.len(), self.txs[i].bytes.len())), "foreign.C18.retransmit_bytes")?;
                }
                if *from != self.local || *to != self.txs[i].dest || *tcp != self.tcp {
                    self.soft(v("C18", "retransmit_addressing", "poll", format!("retransmission of {tid:#x} addressed {from}->{to} tcp={tcp}, expected {}->{}", self.local, self.txs[i].dest)), "foreign.C18.retransmit_addressing")?;
                }
                if self.txs[i].sc || self.txs[i].rc {
                    self.soft(v("C06", "no_transmission_after_cancel", "poll", format!("poll produced a transmission for transaction {tid:#x} after its retransmissions were cancelled")), "foreign.C06.no_transmission_after_cancel")?;
                } else if self.txs[i].k >= self.txs[i].intervals_ms.len() {
                    self.soft(v("C06", "retransmit_count", "poll", format!("transaction {tid:#x} was retransmitted {} times, more than the configured {}", self.txs[i].k + 1, self.txs[i].intervals_ms.len())), "foreign.C06.retransmit_count")?;
                } else if self.txs[i].next_instant() > now {
                    self.soft(v("C06", "retransmit_not_early", "poll", format!("transaction {tid:#x}: retransmission {} handed out at +{} but due at +{}", self.txs[i].k + 1, fmt_ns(now as i128), fmt_ns(self.txs[i].next_instant() as i128))), "foreign.C06.retransmit_not_early")?;
                }
                let tx = &mut self.txs[i];
                if tx.k < tx.intervals_ms.len() {
                    tx.k += 1;
                }
                tx.last = now;
                tx.transmissions += 1;
                self.note_instant(now, Some(i));
                self.invalidate_wait();
                Ok(PollOutcome::Retransmit(tid))
            }
            Reply::TimedOut(tid) => {
                if let Some(j) = self.txs.iter().position(|t| t.tid == *tid && t.report_pending && (t.status == Status::TimedOut || (t.sc && !t.rc))) {
                    // the owed report of a transaction whose id was re-used after it had expired —
                    // unless the live one with that id has itself run out
                    // (a live one that was cancelled is reported as cancelled, not as timed out)
                    let live_expired = self.live_idx(*tid).map_or(false, |i| { let t = &self.txs[i]; !t.rc && t.k >= t.intervals_ms.len() && t.next_instant() <= now });
                    // (both could have produced it: the driver has asked the agent which one is gone)
                    let book_on_live = live_expired && self.hint_live_gone.take().unwrap_or(true);
                    if !book_on_live {
                        self.txs[j].report_pending = false;
                        self.note_instant(now, None);
                        self.invalidate_wait();
                        return Ok(PollOutcome::TimedOut(*tid));
                    }
                }
                let Some(i) = self.live_idx(*tid) else {
                    return Err(v("C05", "completion_only_for_outstanding", "poll", format!("poll reported a time-out for {tid:#x} which is not outstanding")));
                };
                if !self.txs[i].sc {
                    let tx = &self.txs[i];
                    if tx.k < tx.intervals_ms.len() {
                        let viol = v("C06", "timeout_after_all_retransmissions", "poll", format!("transaction {tid:#x} timed out after {} of {} retransmissions", tx.k, tx.intervals_ms.len()));
                        self.soft(viol, "foreign.C06.timeout_after_all_retransmissions")?;
                    } else if tx.next_instant() > now {
                        let viol = v("C06", "timeout_not_early", "poll", format!("transaction {tid:#x} timed out at +{}, {} before last transmission + final timeout (+{})", fmt_ns(now as i128), fmt_ns((tx.next_instant() - now) as i128), fmt_ns(tx.next_instant() as i128)));
                        self.soft(viol, "foreign.C06.timeout_not_early")?;
                    }
                }
                let tx = &mut self.txs[i];
                tx.status = Status::TimedOut;
                tx.completed_at = Some(now);
                self.note_instant(now, None);
                self.invalidate_wait();
                Ok(PollOutcome::TimedOut(*tid))
            }
            Reply::Cancelled(tid) => {
                // a report for an id that was re-used while its cancellation report was still owed: it
                // belongs to the live transaction if that one was cancelled too (the owed one may then
                // still come, or never), to the owed one otherwise; when the live one had only its
                // retransmissions cancelled the driver asks the agent which of the two is gone
                if let Some(j) = self.txs.iter().position(|t| t.tid == *tid && t.report_pending && t.status == Status::Cancelled) {
                    let live = self.live_idx(*tid);
                    let book_on_live = match live {
                        Some(i) if self.txs[i].rc => true,
                        Some(i) if self.txs[i].sc => self.hint_live_gone.take().unwrap_or(false),
                        _ => false,
                    };
                    if !book_on_live {
                        self.txs[j].report_pending = false;
                        self.note_instant(now, None);
                        self.invalidate_wait();
                        return Ok(PollOutcome::Cancelled(*tid));
                    }
                }
                let Some(i) = self.live_idx(*tid) else {
                    return Err(v("C05", "completion_only_for_outstanding", "poll", format!("poll reported a cancellation for {tid:#x} which is not outstanding")));
                };
                if !self.txs[i].sc && !self.txs[i].rc {
                    self.soft(v("C05", "cancel_only_if_requested", "poll", format!("transaction {tid:#x} reported cancelled but was never cancelled")), "foreign.C05.cancel_only_if_requested")?;
                }
                let tx = &mut self.txs[i];
                tx.status = Status::Cancelled;
                tx.completed_at = Some(now);
                self.note_instant(now, None);
                self.invalidate_wait();
                Ok(PollOutcome::Cancelled(*tid))
            }
            o => Err(v("C05", "poll_reply_shape", "poll", format!("unexpected poll reply {}", o.short()))),
        }
    }

    // -------------------------------------------------------------------------------------------
    /// `bytes` is what was handed to `Message::from_bytes`; `parsed` the library's own summary of it.
    pub fn on_handle(&mut self, now: u64, bytes: &[u8], from: SocketAddr, reply: &Reply, st: &mut crate::core::Stats) -> Result<(), Violation> {
        if let Reply::ParseErr(_) = reply {
            // the parser refused the datagram: nothing may change (checked by the invariants)
            return Ok(());
        }
        let class = refcodec::class_of(((bytes[0] as u16) << 8) | bytes[1] as u16);
        let tid = tid_of(bytes).unwrap_or(0);
        if class < 2 {
            // request or indication
            match reply {
                Reply::Incoming(m) => {
                    if m.tid != tid || m.class != class {
                        return Err(v("C05", "incoming_message_identity", "handle_stun", "IncomingStun carries a different message".into()));
                    }
                    self.validated.insert(from);
                    Ok(())
                }
                o => Err(v("C15", "incoming_accepted", "handle_stun", format!("request/indication from {from} answered {}", o.short()))),
            }
        } else {
            let Some(i) = self.live_idx(tid) else {
                return match reply {
                    Reply::Drop => {
                        self.dropped_since_wait = true;
                        Ok(())
                    }
                    o => Err(v("C05", "response_only_for_outstanding", "handle_stun", format!("response for {tid:#x}, which is not outstanding ({}), answered {}", if self.ever_used(tid) { "completed earlier" } else { "never sent" }, o.short()))),
                };
            };
            let tx = &self.txs[i];
            // what must happen?
            #[derive(PartialEq)]
            enum Exp {
                Deliver,
                Drop,
                Either,
            }
            // The properties state when a response must NOT be delivered, and one case in which it
            // must be ("a request sent without integrity accepts an unauthenticated response").  The
            // model demands delivery only of the *canonical* response: from the address the request
            // was sent to, with the request's method, and — for a signed request — carrying exactly
            // the integrity algorithms the request carried, all valid; for an unsigned request,
            // carrying no integrity attribute at all.  Refusing anything else (another source
            // address, another method, a bid-down to the other algorithm, a MAC nobody asked for) is
            // legitimate hardening no property forbids: either verdict.
            let resp_type = ((bytes[0] as u16) << 8) | bytes[1] as u16;
            let resp_view = match refcodec::decode(bytes) {
                Verdict::Accept(view) => Some(view),
                _ => None,
            };
            let resp_algs = resp_view.as_ref().map(|v| (v.exposed.iter().any(|&i| v.all[i].ty == refcodec::MI), v.exposed.iter().any(|&i| v.all[i].ty == refcodec::MI256)));
            // ... with a FINGERPRINT exactly if the request had one (RFC 8489 s7.3 policing), full-length
            // MACs, and no attribute a receiver could refuse as unknown comprehension-required
            let resp_fp = resp_view.as_ref().map_or(false, |v| v.all.last().map(|a| a.ty) == Some(refcodec::FP));
            let plain = resp_view.as_ref().map_or(false, |v| v.all.iter().all(|a| match a.ty {
                refcodec::MI => a.len == 20,
                refcodec::MI256 => a.len == 32,
                t => t >= 0x8000 || matches!(t, 0x0001 | 0x0006 | 0x0009 | 0x000A | 0x0014 | 0x0015 | 0x0020),
            }));
            // ... and nothing hidden behind its first integrity attribute
            let no_hidden = resp_view.as_ref().map_or(false, |v| v.all.iter().enumerate().all(|(i, a)| !(a.ty == refcodec::MI || a.ty == refcodec::MI256) || v.exposed.contains(&i)));
            // ... a request with a single integrity algorithm (to one carrying both, RFC 8489 has the
            // server answer with one: which shapes a client then accepts is its own policy), answered
            // under the remote credentials that were already in force when it was sent
            let single = tx.req_algs != (true, true);
            let same_creds = !tx.signed || tx.remote_at_send == self.remote;
            let canonical = from == tx.dest && refcodec::method_of(resp_type) == tx.method && resp_fp == tx.req_fp && plain && no_hidden && single && same_creds && match resp_algs {
                Some(a) => a == tx.req_algs,
                None => false,
            };
            if !canonical {
                st.inc("probe.non_canonical_response");
            }
            let exp = if self.in_limbo(i) {
                st.inc("probe.response_after_cancel_before_report");
                Exp::Either
            } else if !tx.signed {
                if canonical { Exp::Deliver } else { Exp::Either }
            } else {
                match &self.remote {
                    None => Exp::Drop,
                    Some(rc) => match refcodec::decode(bytes) {
                        Verdict::Accept(view) => {
                            let all = refcodec::integrity_status(bytes, &view, &rc.reference());
                            let exposed_ok = all.iter().filter(|x| view.exposed.contains(&x.0)).all(|x| x.2) && all.iter().any(|x| view.exposed.contains(&x.0));
                            if !refcodec::ok_verdict_acceptable(&all, &view.exposed, None) {
                                // no integrity attribute, none correct, or every correct one is followed
                                // by a wrong exposed one (what tampering produces): must be dropped
                                if all.iter().any(|x| x.2) {
                                    st.inc("probe.mixed_integrity_pair_last_wrong");
                                }
                                Exp::Drop
                            } else if exposed_ok {
                                if canonical { Exp::Deliver } else { Exp::Either }
                            } else {
                                st.inc("probe.mixed_integrity_pair");
                                Exp::Either
                            }
                        }
                        Verdict::Reject(_) => {
                            st.inc("probe.agent_given_message_reference_rejects");
                            Exp::Either
                        }
                    },
                }
            };
            match reply {
                Reply::Response(m) => {
                    if exp == Exp::Drop {
                        let why = if self.remote.is_none() { "no remote credentials are configured" } else { "its integrity does not validate under the remote credentials" };
                        if self.check_prop == "C15" && !self.validated.contains(&from) {
                            // C15: "dropped messages (... failed or missing integrity) ... never
                            // validate it" — this message had to be dropped; delivering it is C07's
                            // business, validating its sender on the strength of it is C15's
                            return Err(v("C15", "validated_only_by_accepted_message", "response_failing_integrity", format!("a response from {from} for signed request {tid:#x} was delivered — and its sender thereby validated — although {why}")));
                        }
                        return Err(v("C07", "delivery_requires_valid_integrity", "handle_stun", format!("request {tid:#x} was signed; a response was delivered although {why}")));
                    }
                    if m.tid != tid {
                        return Err(v("C05", "delivered_message_identity", "handle_stun", "StunResponse carries a different message".into()));
                    }
                    let tx = &mut self.txs[i];
                    tx.status = Status::Delivered;
                    tx.completed_at = Some(now);
                    self.validated.insert(from);
                    self.invalidate_wait();
                    Ok(())
                }
                Reply::Drop => {
                    if exp == Exp::Deliver {
                        if tx.signed {
                            return Err(v("C07", "valid_response_delivered", "handle_stun", format!("request {tid:#x} was signed and the response validates under the remote credentials, but it was dropped")));
                        }
                        return Err(v("C07", "unsigned_request_accepts_any_response", "handle_stun", format!("request {tid:#x} was sent without integrity but its response was dropped")));
                    }
                    self.dropped_since_wait = true;
                    Ok(())
                }
                o => Err(v("C05", "response_reply_shape", "handle_stun", format!("response answered {}", o.short()))),
            }
        }
    }

    // -------------------------------------------------------------------------------------------
    pub fn on_cancel(&mut self, tid: u128, reply: &Reply) -> Result<(), Violation> {
        let live = self.live_idx(tid);
        self.check_handle(tid, live.is_some(), reply)?;
        // (no handle was handed out — possible for a transaction in limbo — means the operation was
        // never applied: nothing was cancelled or reconfigured)
        let live = if matches!(reply, Reply::Handle(Some(_))) { live } else { None };
        if let Some(i) = live {
            self.txs[i].sc = true;
            self.txs[i].rc = true;
            self.invalidate_wait();
        }
        Ok(())
    }
    pub fn on_cancel_retrans(&mut self, tid: u128, reply: &Reply) -> Result<(), Violation> {
        let live = self.live_idx(tid);
        self.check_handle(tid, live.is_some(), reply)?;
        // (no handle was handed out — possible for a transaction in limbo — means the operation was
        // never applied: nothing was cancelled or reconfigured)
        let live = if matches!(reply, Reply::Handle(Some(_))) { live } else { None };
        if let Some(i) = live {
            self.txs[i].sc = true;
            self.invalidate_wait();
        }
        Ok(())
    }
    pub fn on_configure(&mut self, tid: u128, rto_ms: u64, n: u32, last_ms: u64, reply: &Reply) -> Result<(), Violation> {
        let live = self.live_idx(tid);
        self.check_handle(tid, live.is_some(), reply)?;
        // (no handle was handed out — possible for a transaction in limbo — means the operation was
        // never applied: nothing was cancelled or reconfigured)
        let live = if matches!(reply, Reply::Handle(Some(_))) { live } else { None };
        if let Some(i) = live {
            let (ivs, fin) = configured_schedule(self.tcp, rto_ms, n, last_ms);
            let tx = &mut self.txs[i];
            if tx.k > 0 {
                tx.reconfigured_mid = true;
            }
            tx.intervals_ms = ivs;
            tx.final_ms = fin;
            self.invalidate_wait();
        }
        Ok(())
    }
    /// what a mutable handle for `tid` reported (None: no handle was handed out)
    pub fn check_handle_obs(&self, tid: u128, before: Option<SocketAddr>) -> Result<(), Violation> {
        self.check_handle(tid, self.live_idx(tid).is_some(), &Reply::Handle(before))
    }
    fn check_handle(&self, tid: u128, live: bool, reply: &Reply) -> Result<(), Violation> {
        if live && matches!(reply, Reply::Handle(None)) && self.live_idx(tid).map_or(false, |i| self.in_limbo(i)) {
            return Ok(());
        }
        match reply {
            Reply::Handle(None) if !live => Ok(()),
            Reply::Handle(Some(a)) if live => {
                let dest = self.txs[self.live_idx(tid).unwrap()].dest;
                if *a != dest {
                    return Err(v("C18", "peer_address", "mut_request_transaction", format!("peer_address() of {tid:#x} through the mutable handle is {a}, request was sent to {dest}")));
                }
                Ok(())
            }
            o => Err(v("C05", "outstanding_bookkeeping", "mut_request_transaction", format!("mut_request_transaction({tid:#x}) answered {}, model says outstanding={live}", o.short()))),
        }
    }

    pub fn check_query_tx(&self, tid: u128, reply: &Reply) -> Result<(), Violation> {
        let live = self.live_idx(tid);
        // cancelled, report still owed: outstanding or not is the implementation's choice
        if let (Some(i), Reply::Tx(None)) = (live, reply) {
            if self.in_limbo(i) {
                return Ok(());
            }
        }
        match (reply, live) {
            (Reply::Tx(None), None) => Ok(()),
            (Reply::Tx(Some(a)), Some(i)) => {
                if *a != self.txs[i].dest {
                    Err(v("C18", "peer_address", "request_transaction", format!("peer_address() of {tid:#x} is {a}, request was sent to {}", self.txs[i].dest)))
                } else {
                    Ok(())
                }
            }
            (Reply::Tx(Some(_)), None) => {
                let st = self.txs.iter().rfind(|t| t.tid == tid).map(|t| format!("{:?}", t.status)).unwrap_or("never sent".into());
                Err(v("C05", "outstanding_bookkeeping", "request_transaction", format!("request_transaction({tid:#x}) is Some but the transaction is not outstanding ({st})")))
            }
            (Reply::Tx(None), Some(_)) => Err(v("C05", "outstanding_bookkeeping", "request_transaction", format!("request_transaction({tid:#x}) is None but the transaction is outstanding"))),
            (o, _) => Err(v("C05", "outstanding_bookkeeping", "request_transaction", format!("unexpected reply {}", o.short()))),
        }
    }
    pub fn check_query_peer(&self, addr: SocketAddr, reply: &Reply) -> Result<(), Violation> {
        let want = self.validated.contains(&addr);
        match reply {
            Reply::Peer(b) if *b == want => Ok(()),
            Reply::Peer(b) => Err(v("C15", if want { "stays_validated" } else { "validated_only_by_accepted_message" }, "is_validated_peer", format!("is_validated_peer({addr}) = {b}, expected {want}"))),
            o => Err(v("C15", "validated_only_by_accepted_message", "is_validated_peer", format!("unexpected reply {}", o.short()))),
        }
    }

    /// Abstract state for the coverage measure.
    pub fn abstract_state(&self) -> u64 {
        let mut parts: Vec<u64> = self.live().map(|t| (t.k as u64) | ((t.sc as u64) << 8) | ((t.rc as u64) << 9) | ((t.signed as u64) << 10) | ((t.intervals_ms.len() as u64) << 12)).collect();
        parts.sort();
        let mut h = crate::core::FNV0;
        for p in parts {
            h = crate::core::fnv(h, &p.to_le_bytes());
        }
        h = crate::core::fnv(h, &[self.tcp as u8, self.remote.is_some() as u8, self.validated.len() as u8]);
        h
    }
}
