//! The single source of every decision of a run (DESIGN.md §3.1).
//!
//! Generating mode: xoshiro256** seeded from (VERIF_SEED, scenario id, run index); every value
//! drawn is recorded.  Replaying mode: values come from a recorded vector, reduced `mod n`; once
//! the vector is exhausted every draw is 0.  All draw sites are written so that 0 is the simplest
//! outcome, which is what makes shrinking by deletion / zeroing work.

#[derive(Clone)]
struct Xoshiro {
    s: [u64; 4],
}

fn splitmix(x: &mut u64) -> u64 {
    *x = x.wrapping_add(0x9e3779b97f4a7c15);
    let mut z = *x;
    z = (z ^ (z >> 30)).wrapping_mul(0xbf58476d1ce4e5b9);
    z = (z ^ (z >> 27)).wrapping_mul(0x94d049bb133111eb);
    z ^ (z >> 31)
}

impl Xoshiro {
    fn new(seed: u64, scenario: u64, run: u64) -> Self {
        let mut x = seed
            .wrapping_mul(0x2545f4914f6cdd1d)
            .wrapping_add(scenario.wrapping_mul(0x9e3779b97f4a7c15))
            .wrapping_add(run.wrapping_mul(0xd1342543de82ef95))
            ^ 0x5354554e_2112a442;
        let s = [splitmix(&mut x), splitmix(&mut x), splitmix(&mut x), splitmix(&mut x)];
        Self { s }
    }
    fn next(&mut self) -> u64 {
        let r = self.s[1].wrapping_mul(5).rotate_left(7).wrapping_mul(9);
        let t = self.s[1] << 17;
        self.s[2] ^= self.s[0];
        self.s[3] ^= self.s[1];
        self.s[1] ^= self.s[2];
        self.s[0] ^= self.s[3];
        self.s[2] ^= t;
        self.s[3] = self.s[3].rotate_left(45);
        r
    }
}

/// Deterministic byte expansion from one 64-bit value (used for payloads so that a 60 KiB message
/// costs one choice, not 60 000).
pub fn expand_bytes(seed: u64, len: usize) -> Vec<u8> {
    if seed == 0 {
        return vec![0; len];
    }
    let mut x = seed;
    let mut out = Vec::with_capacity(len + 8);
    while out.len() < len {
        out.extend_from_slice(&splitmix(&mut x).to_le_bytes());
    }
    out.truncate(len);
    out
}

pub struct Choices {
    rng: Option<Xoshiro>,
    replay: Vec<u64>,
    pos: usize,
    /// every value handed out, in order (this *is* the run)
    pub rec: Vec<u64>,
    /// hard cap on draws, so that a buggy scenario cannot loop forever
    pub draws: u64,
}

impl Choices {
    pub fn generating(seed: u64, scenario: u64, run: u64) -> Self {
        Self { rng: Some(Xoshiro::new(seed, scenario, run)), replay: vec![], pos: 0, rec: Vec::with_capacity(256), draws: 0 }
    }
    pub fn replaying(v: Vec<u64>) -> Self {
        Self { rng: None, replay: v, pos: 0, rec: Vec::with_capacity(256), draws: 0 }
    }
    /// 0 <= r < n.  n <= 1 consumes nothing.
    pub fn below(&mut self, n: u64) -> u64 {
        if n <= 1 {
            return 0;
        }
        self.draws += 1;
        let v = match &mut self.rng {
            Some(r) => {
                // multiply-shift; bias is irrelevant here
                ((r.next() as u128 * n as u128) >> 64) as u64
            }
            None => {
                let v = self.replay.get(self.pos).copied().unwrap_or(0);
                self.pos += 1;
                v % n
            }
        };
        self.rec.push(v);
        v
    }
    /// inclusive range, lo is the simplest
    pub fn range(&mut self, lo: u64, hi: u64) -> u64 {
        debug_assert!(hi >= lo);
        lo + self.below(hi - lo + 1)
    }
    /// true with probability num/den; false is the simple outcome (value 0 => false)
    pub fn rare(&mut self, num: u64, den: u64) -> bool {
        if num == 0 {
            return false;
        }
        if num >= den {
            return true;
        }
        self.below(den) >= den - num
    }
    pub fn coin(&mut self) -> bool {
        self.below(2) == 1
    }
    pub fn pick<'a, T>(&mut self, xs: &'a [T]) -> &'a T {
        &xs[self.below(xs.len() as u64) as usize]
    }
    /// index drawn by weight; index 0 should be the simplest alternative
    pub fn weighted(&mut self, w: &[u32]) -> usize {
        let total: u64 = w.iter().map(|&x| x as u64).sum();
        if total == 0 {
            return 0;
        }
        let mut v = self.below(total);
        for (i, &x) in w.iter().enumerate() {
            if v < x as u64 {
                return i;
            }
            v -= x as u64;
        }
        w.len() - 1
    }
    /// `len` bytes from a single choice (0 => all zero)
    pub fn bytes(&mut self, len: usize) -> Vec<u8> {
        let s = self.below(1 << 32);
        expand_bytes(s, len)
    }
    pub fn u64_any(&mut self) -> u64 {
        let hi = self.below(1 << 32);
        let lo = self.below(1 << 32);
        (hi << 32) | lo
    }
    /// a value biased to boundaries: one of `edges` half of the time, else uniform in lo..=hi
    pub fn edgy(&mut self, lo: u64, hi: u64, edges: &[u64]) -> u64 {
        if !edges.is_empty() && !self.coin() {
            return *self.pick(edges);
        }
        self.range(lo, hi)
    }
}
