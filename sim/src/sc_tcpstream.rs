//! Scenario `tcpstream` (C14): a writer frames a message sequence (RFC 4571), the network cuts the
//! byte stream into segments, the reader interleaves `push_data` and `pull_data` on the real
//! `TcpBuffer`.  Oracle: the frame model of DESIGN.md §4.3.  Profile `sweep` enumerates every
//! segmentation x drain pattern of short streams.

use crate::core::{guard, short_loc, Ctx, Guarded, ScResult, Violation};
use crate::ev;
use crate::gen::hex;
use std::collections::VecDeque;
use stun_proto::agent::TcpBuffer;

fn g<T>(site: &'static str, f: impl FnOnce() -> T) -> Result<T, Violation> {
    match guard(f) {
        Guarded::Ok(v) => Ok(v),
        Guarded::Panicked(m, l) => Err(Violation::new("C14", "panic", site, format!("{site} panicked: {m} at {}", short_loc(&l)))),
    }
}

/// Frame model: bytes pushed and not yet consumed.
struct FrameModel {
    buf: VecDeque<u8>,
}

impl FrameModel {
    fn expected_pull(&mut self) -> Option<Vec<u8>> {
        if self.buf.len() < 2 {
            return None;
        }
        let l = ((self.buf[0] as usize) << 8) | self.buf[1] as usize;
        if self.buf.len() < 2 + l {
            return None;
        }
        self.buf.drain(..2);
        Some(self.buf.drain(..l).collect())
    }
}

fn frame_len(ctx: &mut Ctx) -> usize {
    match ctx.ch.weighted(&[8, 6, 3, 2, 1]) {
        0 => ctx.ch.below(4) as usize,
        1 => ctx.ch.range(1, 40) as usize,
        2 => *ctx.ch.pick(&[255usize, 256, 257, 1500]),
        3 => ctx.ch.range(0, 3000) as usize,
        _ => *ctx.ch.pick(&[65_535usize, 65_534, 65_533, 65_536 - 4, 32_768]),
    }
}

fn check_pull(ctx: &mut Ctx, tb: &mut TcpBuffer, fm: &mut FrameModel, got_n: &mut usize, why: &'static str) -> Result<bool, Violation> {
    let got = g("TcpBuffer::pull_data", || tb.pull_data())?;
    let want = fm.expected_pull();
    ctx.st.inc("op.pull");
    if got != want {
        let site = match (&got, &want) {
            (None, Some(f)) if f.is_empty() => "complete_empty_frame_not_returned",
            (None, Some(_)) => "complete_frame_not_returned",
            (Some(_), None) => "incomplete_frame_returned",
            _ => "frame_altered",
        };
        let d = |x: &Option<Vec<u8>>| match x {
            None => "None".to_string(),
            Some(v) => format!("Some({}B {})", v.len(), hex(&v[..v.len().min(16)])),
        };
        let v = Violation::new("C14", "pull_returns_next_frame", site, format!("pull #{} ({why}): got {}, the frame model expects {}", *got_n, d(&got), d(&want)));
        ev!(ctx, "  !! {}", v.message);
        return Err(v);
    }
    *got_n += 1;
    Ok(got.is_some())
}

pub fn scenario(ctx: &mut Ctx) -> ScResult {
    if ctx.cfg.profile == "sweep" {
        return sweep(ctx);
    }
    if ctx.cfg.profile == "lifetime" {
        return lifetime(ctx);
    }
    if ctx.cfg.profile == "backlog" {
        return backlog(ctx);
    }
    // 1..3 connections one after the other on this node: each gets a fresh TcpBuffer, the previous
    // one is dropped (after a connection cut: dropped while it still holds unread bytes); nothing of
    // an earlier connection may surface in a later one
    let conns = if ctx.ch.rare(1, 3) { ctx.ch.range(2, 3) } else { 1 };
    for c in 0..conns {
        if c > 0 {
            ctx.st.inc("fault.reconnect_after_drop");
        }
        one_connection(ctx)?;
    }
    Ok(())
}

/// What this stream carries in practice: STUN messages — and things that nearly are.
fn stun_like_payload(ctx: &mut Ctx) -> Vec<u8> {
    let creds = crate::gen::Creds::Short("tcp".into());
    let pool = crate::gen::gen_addr_pool(ctx.ch, 2);
    let attrs = crate::gen::gen_attrs(ctx.ch, &pool, &crate::gen::SpecOpts { max_attrs: 2, big: 0 });
    let variant = ctx.ch.below(8);
    let mut m = crate::gen::MsgSpec { class: ctx.ch.below(4) as u8, method: 1, tid: crate::gen::gen_tid(ctx.ch), attrs, seals: crate::gen::seals_of(variant, &creds) }.build();
    match ctx.ch.below(5) {
        0 | 1 => {}
        2 => {
            // trailing bytes after the message (1..3, or a few more)
            let k = *ctx.ch.pick(&[1usize, 2, 3, 4, 7]);
            let extra = ctx.ch.bytes(k);
            m.extend_from_slice(&extra);
        }
        3 => {
            let k = ctx.ch.below(m.len() as u64) as usize;
            m.truncate(k);
        }
        _ => {
            // declared STUN length off by a little
            let l = (((m[2] as u16) << 8) | m[3] as u16).wrapping_add(*ctx.ch.pick(&[1u16, 2, 3, 4, 0xfffc]));
            m[2..4].copy_from_slice(&l.to_be_bytes());
        }
    }
    m
}

fn one_connection(ctx: &mut Ctx) -> ScResult {
    // frames; one connection in 24 carries a train of 40..1500 tiny frames (a reader that falls
    // behind a chatty peer: hundreds of complete frames waiting at once)
    let train = ctx.ch.rare(1, 24);
    let nf = if train { ctx.ch.range(40, 1500) as usize } else { ctx.ch.range(1, 6) as usize };
    if train {
        ctx.st.inc("op.train_of_tiny_frames");
    }
    let mut frames: Vec<Vec<u8>> = vec![];
    let mut stream: Vec<u8> = vec![];
    for _ in 0..nf {
        let mut l = if train { ctx.ch.weighted(&[6, 2, 1, 1]) as usize } else { frame_len(ctx) };
        // payloads that themselves look like length prefixes some of the time
        let mut p = ctx.ch.bytes(l);
        if l >= 2 && ctx.ch.rare(1, 3) {
            p[0] = 0;
            p[1] = ctx.ch.below(4) as u8;
        }
        if !train && ctx.ch.rare(1, 3) {
            p = stun_like_payload(ctx);
            l = p.len();
            ctx.st.inc("op.frame_with_stun_like_payload");
        }
        stream.extend_from_slice(&(l as u16).to_be_bytes());
        stream.extend_from_slice(&p);
        frames.push(p);
    }
    ev!(ctx, "frames {:?} stream {}B", frames.iter().map(|f| f.len()).collect::<Vec<_>>(), stream.len());
    // optional connection cut: nothing after it is ever delivered
    let cut = if ctx.ch.rare(1, 4) {
        ctx.st.inc("fault.connection_cut");
        ctx.ch.below(stream.len() as u64 + 1) as usize
    } else {
        stream.len()
    };
    let mut tb = g("TcpBuffer::new", TcpBuffer::new)?;
    let mut fm = FrameModel { buf: VecDeque::new() };
    let mut pulls = 0usize;
    let mut delivered = 0usize;
    // segmentation: 0 one byte at a time, 1 everything at once, 2 1..3 bytes, 3 up to 2000 bytes,
    // 4 anything, 5 frame-aligned (the sender writes frame by frame and the network keeps the
    // boundaries: each push carries exactly one whole frame, sometimes two or three)
    let seg_mode = ctx.ch.below(6);
    let mut boundaries: Vec<usize> = vec![];
    {
        let mut o = 0usize;
        for f in &frames {
            o += 2 + f.len();
            boundaries.push(o);
        }
    }
    let drain_mode = ctx.ch.below(4); // 0 drain after each push, 1 random pulls, 2 drain only at the end, 3 single pull per push
    if ctx.ch.coin() {
        // pull before anything arrives
        check_pull(ctx, &mut tb, &mut fm, &mut pulls, "before any data")?;
    }
    let mut pos = 0usize;
    let mut segs = 0u64;
    // knob: zero-length pushes in one run of three
    let empty_pushes = ctx.ch.rare(1, 3);
    while pos < cut {
        let rem = cut - pos;
        let n = match seg_mode {
            0 => 1,
            1 => rem,
            2 => ctx.ch.range(1, 3) as usize,
            3 => ctx.ch.range(1, 2000) as usize,
            5 => {
                let k = if ctx.ch.rare(1, 4) { ctx.ch.range(2, 3) as usize } else { 1 };
                let next: Vec<usize> = boundaries.iter().copied().filter(|b| *b > pos).collect();
                match next.get(k - 1).or(next.last()) {
                    Some(b) => b - pos,
                    None => rem,
                }
            }
            _ => ctx.ch.range(1, rem as u64) as usize,
        }
        .min(rem);
        let chunk = &stream[pos..pos + n];
        // a read that returned no bytes (a spurious wake-up): an empty push, before or after the chunk
        let empty_push = empty_pushes && ctx.ch.rare(1, 4);
        if empty_push && ctx.ch.coin() {
            ctx.st.inc("fault.empty_push");
            g("TcpBuffer::push_data", || tb.push_data(&[]))?;
        }
        g("TcpBuffer::push_data", || tb.push_data(chunk))?;
        if empty_push {
            ctx.st.inc("fault.empty_push");
            g("TcpBuffer::push_data", || tb.push_data(&[]))?;
        }
        fm.buf.extend(chunk.iter().copied());
        pos += n;
        segs += 1;
        match drain_mode {
            0 => {
                while check_pull(ctx, &mut tb, &mut fm, &mut pulls, "drain after push")? {
                    delivered += 1;
                }
                // pull repeatedly on an incomplete frame: must stay None and consume nothing
                if ctx.ch.rare(1, 4) {
                    check_pull(ctx, &mut tb, &mut fm, &mut pulls, "repeat on incomplete")?;
                }
            }
            1 => {
                let k = ctx.ch.below(3);
                for _ in 0..k {
                    if check_pull(ctx, &mut tb, &mut fm, &mut pulls, "random pull")? {
                        delivered += 1;
                    }
                }
            }
            3 => {
                if check_pull(ctx, &mut tb, &mut fm, &mut pulls, "single pull")? {
                    delivered += 1;
                }
            }
            _ => {}
        }
    }
    while check_pull(ctx, &mut tb, &mut fm, &mut pulls, "final drain")? {
        delivered += 1;
    }
    // everything fully received must have surfaced, in order (the model guarantees order and content)
    let mut fully = 0usize;
    let mut o = 0usize;
    for f in &frames {
        o += 2 + f.len();
        if o <= cut {
            fully += 1;
        }
    }
    if delivered != fully {
        let v = Violation::new("C14", "all_complete_frames_surface", "count", format!("{fully} frames were fully received, {delivered} were pulled"));
        ev!(ctx, "  !! {}", v.message);
        return Err(v);
    }
    let _ = g("TcpBuffer::fmt", || format!("{tb:?}"))?;
    ctx.st.add("fault.segmentation", segs);
    ctx.st.add("out.frames_delivered", delivered as u64);
    ev!(ctx, "  {} segments, {} pulls, {} frames delivered (cut at {cut})", segs, pulls, delivered);
    if cut < stream.len() && pos > 0 {
        ctx.st.inc("probe.buffer_dropped_with_unread_bytes");
    }
    ctx.st.nontrivial = ctx.st.nontrivial || segs >= 2 || frames.len() >= 2;
    Ok(())
}

/// Profile `backlog`: the reader falls far behind.  Thousands of tiny complete frames (mostly empty,
/// some of 1..3 bytes, now and then a longer one) wait in one `TcpBuffer` at the same time — a few
/// hundred, about 2^16 (the count of waiting frames crosses 65 535 / 65 536 / 65 537), about 2^17, or
/// anything in between — pushed all at once, in chunks of up to 4 KB, in two halves or two bytes at a
/// time, with the occasional pull while the backlog builds up; then everything is drained.  Every
/// pull is compared with the frame model.
fn backlog(ctx: &mut Ctx) -> ScResult {
    let n = match ctx.ch.weighted(&[4, 3, 1, 2]) {
        0 => ctx.ch.range(300, 3000),
        1 => ctx.ch.range(65_530, 65_541),
        2 => ctx.ch.range(131_070, 131_075),
        _ => ctx.ch.range(20_000, 70_000),
    } as usize;
    let mut stream: Vec<u8> = Vec::with_capacity(n * 3);
    let mut ends: Vec<usize> = Vec::with_capacity(n);
    let longer_every = ctx.ch.range(500, 5000) as usize;
    for i in 0..n {
        let l = if i % longer_every == longer_every - 1 { ctx.ch.range(4, 300) as usize } else { ctx.ch.weighted(&[12, 2, 1, 1]) as usize };
        stream.extend_from_slice(&(l as u16).to_be_bytes());
        for k in 0..l {
            stream.push((i as u8).wrapping_mul(13).wrapping_add(k as u8) | 1);
        }
        ends.push(stream.len());
    }
    let mut tb = g("TcpBuffer::new", TcpBuffer::new)?;
    let mut fm = FrameModel { buf: VecDeque::new() };
    let mut pulls = 0usize;
    let mut delivered = 0usize;
    let mode = ctx.ch.below(4);
    let pull_while_filling = ctx.ch.coin();
    let mut pos = 0usize;
    let mut received = 0usize; // frames fully pushed
    let mut max_waiting = 0usize;
    let mut segs = 0u64;
    while pos < stream.len() {
        let rem = stream.len() - pos;
        let k = match mode {
            0 => rem,
            1 => ctx.ch.range(1, 4096) as usize,
            2 => (rem / 2).max(1),
            _ => {
                if rem > 4096 {
                    rem - 4096
                } else {
                    2
                }
            }
        }
        .min(rem);
        let chunk = &stream[pos..pos + k];
        g("TcpBuffer::push_data", || tb.push_data(chunk))?;
        fm.buf.extend(chunk.iter().copied());
        pos += k;
        segs += 1;
        while received < n && ends[received] <= pos {
            received += 1;
        }
        max_waiting = max_waiting.max(received - delivered);
        if pull_while_filling && ctx.ch.rare(1, 3) {
            for _ in 0..ctx.ch.range(1, 3) {
                if check_pull(ctx, &mut tb, &mut fm, &mut pulls, "pull while the backlog builds up")? {
                    delivered += 1;
                }
            }
        }
    }
    while check_pull(ctx, &mut tb, &mut fm, &mut pulls, "draining the backlog")? {
        delivered += 1;
    }
    if delivered != n {
        let v = Violation::new("C14", "all_complete_frames_surface", "count", format!("{n} frames were fully received, {delivered} were pulled"));
        ev!(ctx, "  !! {}", v.message);
        return Err(v);
    }
    if max_waiting >= 65_536 {
        ctx.st.inc("probe.backlog_of_65536_or_more_complete_frames");
    }
    ctx.st.inc("op.backlog_run");
    ctx.st.add("fault.segmentation", segs);
    ctx.st.add("out.frames_delivered", delivered as u64);
    ev!(ctx, "  backlog: {n} frames, {segs} segments, at most {max_waiting} complete frames waiting at once, {pulls} pulls");
    ctx.st.nontrivial = true;
    Ok(())
}

/// Profile `lifetime`: one long-lived connection.  More than 2^32 bytes pass through a single
/// `TcpBuffer` (65 600 maximum-size frames and change), with the chunking varied along the way and
/// most densely around the point where the cumulative byte count crosses 2^32 (and 2^31).  The frame
/// model is kept incrementally (the expected frame is known by construction), so the run costs a few
/// seconds of memory traffic.
fn lifetime(ctx: &mut Ctx) -> ScResult {
    let mut tb = g("TcpBuffer::new", TcpBuffer::new)?;
    let big = 65_535usize;
    let mut frame = vec![0u8; 2 + big];
    frame[0] = 0xff;
    frame[1] = 0xff;
    for (i, b) in frame.iter_mut().enumerate().skip(10) {
        *b = (i as u8).wrapping_mul(31).wrapping_add(7);
    }
    let mut total: u64 = 0;
    let mut pulls = 0u64;
    let vary_every = ctx.ch.range(1500, 4000);
    let target: u64 = (1u64 << 32) + 70 * 65_537;
    let mut i: u64 = 0;
    let bad = |ctx: &mut Ctx, what: &str, i: u64, total: u64| {
        let v = Violation::new("C14", "pull_returns_next_frame", "long_lived_connection", format!("frame #{i} (after {total} bytes through this buffer): {what}"));
        ev!(ctx, "  !! {}", v.message);
        v
    };
    while total < target {
        frame[2..10].copy_from_slice(&i.to_be_bytes());
        let near_wrap = |t: u64| (t.wrapping_add(200_000) & 0x7fff_ffff) < 400_000 && t > 1_000_000;
        let vary = i % vary_every == 0 || near_wrap(total);
        if !vary {
            g("TcpBuffer::push_data", || tb.push_data(&frame))?;
            total += frame.len() as u64;
            let got = g("TcpBuffer::pull_data", || tb.pull_data())?;
            pulls += 1;
            if got.as_deref() != Some(&frame[2..]) {
                return Err(bad(ctx, "the complete frame that was pushed was not returned unaltered", i, total));
            }
        } else {
            // variation: the frame arrives in two chunks with a pull in between (must be None), then
            // two smaller frames arrive in one chunk (two pulls), then a pull on the empty buffer
            let cutp = match ctx.ch.below(4) {
                0 => 1,
                1 => 2,
                2 => frame.len() - 1,
                _ => ctx.ch.range(1, frame.len() as u64 - 1) as usize,
            };
            g("TcpBuffer::push_data", || tb.push_data(&frame[..cutp]))?;
            if g("TcpBuffer::pull_data", || tb.pull_data())?.is_some() {
                return Err(bad(ctx, "pull returned a frame while only part of it had arrived", i, total));
            }
            g("TcpBuffer::push_data", || tb.push_data(&frame[cutp..]))?;
            total += frame.len() as u64;
            let got = g("TcpBuffer::pull_data", || tb.pull_data())?;
            if got.as_deref() != Some(&frame[2..]) {
                return Err(bad(ctx, "frame delivered in two chunks was not returned unaltered", i, total));
            }
            let l1 = *ctx.ch.pick(&[40_000usize, 0, 1, 3]);
            let l2 = *ctx.ch.pick(&[40_000usize, 2, 0]);
            let mut two = vec![];
            two.extend_from_slice(&(l1 as u16).to_be_bytes());
            two.extend(std::iter::repeat(0xA1).take(l1));
            two.extend_from_slice(&(l2 as u16).to_be_bytes());
            two.extend(std::iter::repeat(0xB2).take(l2));
            g("TcpBuffer::push_data", || tb.push_data(&two))?;
            total += two.len() as u64;
            let a = g("TcpBuffer::pull_data", || tb.pull_data())?;
            let b = g("TcpBuffer::pull_data", || tb.pull_data())?;
            let c = g("TcpBuffer::pull_data", || tb.pull_data())?;
            if a.as_deref() != Some(&vec![0xA1u8; l1][..]) || b.as_deref() != Some(&vec![0xB2u8; l2][..]) || c.is_some() {
                return Err(bad(ctx, "two frames pushed in one chunk were not returned as exactly those two frames", i, total));
            }
            pulls += 5;
            ctx.st.inc("op.lifetime_variation");
        }
        i += 1;
    }
    ctx.st.add("op.pull", pulls);
    ctx.st.add("out.frames_delivered", i);
    ctx.st.inc("probe.more_than_4GiB_through_one_buffer");
    ev!(ctx, "  long-lived connection: {i} frames, {total} bytes through one TcpBuffer");
    ctx.st.nontrivial = true;
    Ok(())
}

/// Systematic sweep: for one drawn short stream (<= 3 frames, <= 12 bytes) all 2^(n-1)
/// segmentations x {drain after each push, drain only at the end}.
fn sweep(ctx: &mut Ctx) -> ScResult {
    let nf = ctx.ch.range(1, 3) as usize;
    let mut stream: Vec<u8> = vec![];
    let mut lens = vec![];
    for _ in 0..nf {
        let room = 12usize.saturating_sub(stream.len() + 2);
        if stream.len() + 2 > 12 {
            break;
        }
        let l = ctx.ch.below(room.min(5) as u64 + 1) as usize;
        let mut p = ctx.ch.bytes(l);
        if l >= 2 && ctx.ch.coin() {
            p[0] = 0;
            p[1] = ctx.ch.below(3) as u8;
        }
        stream.extend_from_slice(&(l as u16).to_be_bytes());
        stream.extend_from_slice(&p);
        lens.push(l);
    }
    // optionally a dangling partial frame at the end
    if stream.len() < 12 && ctx.ch.coin() {
        stream.push(0);
        if stream.len() < 12 && ctx.ch.coin() {
            stream.push(3);
        }
    }
    let n = stream.len();
    ev!(ctx, "sweep stream {} frames {:?}", hex(&stream), lens);
    let mut cases = 0u64;
    for mask in 0..(1u32 << (n.saturating_sub(1))) {
        for drain_each in [true, false] {
            let mut tb = TcpBuffer::new();
            let mut fm = FrameModel { buf: VecDeque::new() };
            let mut pulls = 0usize;
            let mut start = 0usize;
            for i in 0..n {
                let boundary = i + 1 == n || (mask >> i) & 1 == 1;
                if boundary {
                    let chunk = &stream[start..=i];
                    g("TcpBuffer::push_data", || tb.push_data(chunk))?;
                    fm.buf.extend(chunk.iter().copied());
                    start = i + 1;
                    if drain_each {
                        while check_pull(ctx, &mut tb, &mut fm, &mut pulls, "sweep drain")? {}
                    }
                }
            }
            while check_pull(ctx, &mut tb, &mut fm, &mut pulls, "sweep final")? {}
            cases += 1;
        }
    }
    ctx.st.add("enum.segmentation_patterns", cases);
    ctx.st.cases += cases;
    ctx.st.cases_nontrivial += cases;
    ctx.case_hashes.push(crate::core::fnv(crate::core::FNV0, &stream));
    ctx.st.nontrivial = true;
    Ok(())
}
