//! The receive pipeline a node runs on every delivery (DESIGN.md §5 C01/C02/C10): every public
//! decoding entry point and every read-only operation on an accepted message, each call guarded
//! against panics; plus the differential oracle against the reference decoder.

use crate::core::{guard, short_loc, Ctx, Guarded, ScResult, Violation};
use crate::gen::Creds;
use crate::refcodec::{self, Cause, RefView, Verdict, FP, MI, MI256};
use stun_types::attribute::*;
use stun_types::message::*;

fn g<T>(site: &'static str, f: impl FnOnce() -> T) -> Result<T, Violation> {
    match guard(f) {
        Guarded::Ok(v) => Ok(v),
        Guarded::Panicked(m, l) => Err(Violation::new("C01", "no_panic", site, format!("{site} panicked: {m} at {}", short_loc(&l)))),
    }
}

macro_rules! each_typed {
    ($m:ident) => {
        $m!(Username);
        $m!(Userhash);
        $m!(MessageIntegrity);
        $m!(MessageIntegritySha256);
        $m!(ErrorCode);
        $m!(UnknownAttributes);
        $m!(Realm);
        $m!(Nonce);
        $m!(PasswordAlgorithm);
        $m!(PasswordAlgorithms);
        $m!(XorMappedAddress);
        $m!(AlternateServer);
        $m!(AlternateDomain);
        $m!(Software);
        $m!(Fingerprint);
        $m!(Priority);
        $m!(UseCandidate);
        $m!(IceControlled);
        $m!(IceControlling);
    };
}

/// All 19 typed decoders on one raw attribute, plus its formatting.
pub fn typed_decoders(raw: &RawAttribute, tid: TransactionId) -> Result<u32, Violation> {
    let mut ok = 0u32;
    macro_rules! one {
        ($t:ident) => {
            let r = g(concat!(stringify!($t), "::from_raw"), || match <$t>::from_raw(raw) {
                Ok(v) => {
                    // read-only operations on the decoded value belong to C01 only for values that
                    // can occur in a message (a value over 65 535 bytes has no wire representation:
                    // there only the decoder itself is the entry point under test)
                    if raw.value.len() <= 65_535 {
                        let _ = format!("{} {:?}", v, v);
                        let _ = v.length();
                        let _ = v.get_type();
                    }
                    true
                }
                Err(e) => {
                    let _ = format!("{} {:?}", e, e);
                    false
                }
            })?;
            if r {
                ok += 1;
            }
        };
    }
    each_typed!(one);
    // getters that compute
    g("XorMappedAddress::addr", || {
        if let Ok(x) = XorMappedAddress::from_raw(raw) {
            let _ = x.addr(tid);
        }
    })?;
    // formatting a value byte by byte is what dominates the cost of a large attribute: values over
    // 64 bytes are formatted one time in eight, over 1 KB one time in 128 (decided by their content,
    // not by the PRNG)
    let v = &raw.value;
    let fmt_it = v.len() <= 64 || (v.len() + v[0] as usize + v[v.len() - 1] as usize) % (if v.len() <= 1024 { 8 } else { 128 }) == 0;
    // (a hand-built attribute of more than 65 535 bytes has no wire form: only its decoders are driven)
    if v.len() <= 65_535 {
        g("RawAttribute::fmt", || {
            if fmt_it {
                let _ = format!("{}", raw);
                let _ = format!("{:?}", raw);
            }
            let _ = raw.to_bytes();
        })?;
    }
    Ok(ok)
}

pub struct PipeOpts<'a> {
    /// run the differential oracle (C02 / C10 clauses)
    pub oracle: bool,
    /// credentials to try validate_integrity with
    pub creds: &'a [Creds],
    /// offsets budget for the raw-attribute sweep
    pub sweep: usize,
    /// other deliveries of the same batch: a receiver that parses a whole batch of datagrams before
    /// it inspects any of them has these parsed *between* the parse of `buf` and the read-only
    /// operations on it (whatever the decoder remembers from its last call is then about another
    /// message)
    pub interleave: &'a [Vec<u8>],
}

fn lib_class(c: MessageClass) -> u8 {
    match c {
        MessageClass::Request => 0,
        MessageClass::Indication => 1,
        MessageClass::Success => 2,
        MessageClass::Error => 3,
    }
}

fn err_matches(e: &StunParseError, causes: &[Cause], n: usize) -> bool {
    causes.iter().any(|c| match (e, c) {
        (StunParseError::NotStun, Cause::NotStun) => true,
        (StunParseError::Truncated { expected, actual }, Cause::TruncHeader { actual: a }) => *expected == 20 && *actual == *a && *a == n,
        (StunParseError::Truncated { expected, actual }, Cause::TruncBody { expected: x, actual: a }) => expected == x && actual == a,
        // "truncated with the byte counts": whatever convention the counts follow (relative to the
        // message or to the attribute), the size reported as available can never exceed the buffer,
        // and the size reported as needed must exceed the one available
        (StunParseError::Truncated { expected, actual }, Cause::AttrOverrun) => *actual <= n && *expected > *actual,
        (StunParseError::Truncated { expected, actual }, Cause::FpMalformed) => *actual <= n && *expected > *actual,
        // C02's list of causes has no name for excess bytes: any variant that does not name another,
        // absent, cause will do
        (StunParseError::TooLarge { .. } | StunParseError::DataMismatch | StunParseError::InvalidAttributeData | StunParseError::WrongAttributeImplementation, Cause::Excess { .. }) => true,
        (StunParseError::TooLarge { .. }, Cause::FpMalformed) => true,
        (StunParseError::AttributeAfterIntegrity(t), Cause::AfterIntegrity(x)) => t.value() == *x,
        (StunParseError::AttributeAfterFingerprint(t), Cause::AfterFingerprint(x)) => t.value() == *x,
        (StunParseError::FingerprintMismatch, Cause::FpMismatch) => true,
        (StunParseError::FingerprintMismatch, Cause::FpMalformed) => true,
        (StunParseError::InvalidAttributeData, Cause::FpMalformed) => true,
        _ => false,
    })
}

pub fn cause_site(c: &Cause) -> &'static str {
    match c {
        Cause::NotStun => "not_stun",
        Cause::TruncHeader { .. } => "short_header",
        Cause::TruncBody { .. } => "declared_length_beyond_buffer",
        Cause::Excess { .. } => "excess_bytes",
        Cause::AttrOverrun => "attribute_overrun",
        Cause::AfterIntegrity(t) => {
            if *t == MI || *t == MI256 {
                "repeated_integrity"
            } else if *t == FP {
                "repeated_fingerprint"
            } else {
                "attribute_after_integrity"
            }
        }
        Cause::AfterFingerprint(t) => {
            if *t == MI || *t == MI256 {
                "integrity_after_fingerprint"
            } else {
                "attribute_after_fingerprint"
            }
        }
        Cause::FpMismatch => "fingerprint_mismatch",
        Cause::FpMalformed => "fingerprint_malformed",
    }
}

fn err_site(e: &StunParseError) -> &'static str {
    match e {
        StunParseError::NotStun => "NotStun",
        StunParseError::Truncated { .. } => "Truncated",
        StunParseError::TooLarge { .. } => "TooLarge",
        StunParseError::AttributeAfterIntegrity(_) => "AttributeAfterIntegrity",
        StunParseError::AttributeAfterFingerprint(_) => "AttributeAfterFingerprint",
        StunParseError::FingerprintMismatch => "FingerprintMismatch",
        StunParseError::IntegrityCheckFailed => "IntegrityCheckFailed",
        StunParseError::MissingAttribute(_) => "MissingAttribute",
        StunParseError::DataMismatch => "DataMismatch",
        StunParseError::InvalidAttributeData => "InvalidAttributeData",
        StunParseError::WrongAttributeImplementation => "WrongAttributeImplementation",
    }
}

fn tail_shape(view: &RefView) -> String {
    match view.first_integrity {
        None => {
            if view.all.last().map(|a| a.ty) == Some(FP) {
                "tail=[FP]".into()
            } else {
                "tail=[]".into()
            }
        }
        Some(fi) => {
            let names: Vec<&str> = view.all[fi..]
                .iter()
                .map(|a| match a.ty {
                    MI => "MI",
                    MI256 => "MI256",
                    FP => "FP",
                    _ => "?",
                })
                .collect();
            format!("tail=[{}]", names.join(","))
        }
    }
}

/// Compare what the library exposes for an accepted message with the reference view.
/// `check_prop`: the property under check.  A wrong by-type lookup of MESSAGE-INTEGRITY,
/// MESSAGE-INTEGRITY-SHA256 or FINGERPRINT that is not about a hidden attribute contradicts both C02
/// ("lookups return the first match" of the encoded sequence) and C10 ("exposed by iteration and
/// lookup"); it is reported under whichever of the two is being checked.
pub fn compare_view(buf: &[u8], msg: &Message, view: &RefView, check_prop: &str) -> ScResult {
    let hdr = |what: &str, got: String, want: String| Violation::new("C02", "header_fields", what, format!("accepted message: {what} is {got}, the buffer encodes {want}"));
    if lib_class(msg.class()) != view.class {
        return Err(hdr("class", format!("{:?}", msg.class()), format!("{}", view.class)));
    }
    if msg.method() != view.method {
        return Err(hdr("method", format!("{:#x}", msg.method()), format!("{:#x}", view.method)));
    }
    let tid: u128 = msg.transaction_id().into();
    if tid != view.tid {
        return Err(hdr("transaction_id", format!("{tid:#x}"), format!("{:#x}", view.tid)));
    }
    let got: Vec<(u16, Vec<u8>)> = msg.iter_attributes().map(|a| (a.get_type().value(), a.value.to_vec())).collect();
    let want: Vec<(u16, &[u8])> = view.exposed.iter().map(|&i| (view.all[i].ty, view.all[i].value(buf))).collect();
    let prefix_len = view.first_integrity.map(|fi| fi + 1).unwrap_or(view.all.len());
    let same = got.len() == want.len() && got.iter().zip(want.iter()).all(|(g, w)| g.0 == w.0 && g.1 == w.1);
    if !same {
        // where is the first difference?
        let mut i = 0;
        while i < got.len() && i < want.len() && got[i].0 == want[i].0 && got[i].1 == want[i].1 {
            i += 1;
        }
        let gt: Vec<String> = got.iter().map(|g| format!("{:#06x}", g.0)).collect();
        let wt: Vec<String> = want.iter().map(|w| format!("{:#06x}", w.0)).collect();
        let msg = format!("iter_attributes yields [{}] but the exposure rule gives [{}] ({}; first difference at position {i})", gt.join(","), wt.join(","), tail_shape(view));
        if i < prefix_len && view.first_integrity.is_none() {
            return Err(Violation::new("C02", "attribute_sequence", "iter_attributes", msg));
        }
        if i < prefix_len {
            // a message with an integrity attribute whose attributes *up to and including* it are not
            // all exposed contradicts C10's first clause as much as C02's faithful-sequence clause
            if check_prop == "C10" {
                return Err(Violation::new("C10", "exposure", &tail_shape(view), msg));
            }
            return Err(Violation::new("C02", "attribute_sequence", "iter_attributes_before_integrity", msg));
        }
        // iteration that *ends early* — everything it yielded is right, but attributes the buffer
        // encodes and the exposure rule exposes (a FINGERPRINT, a SHA-256 attribute directly after the
        // SHA-1 one) are missing — contradicts C02's "the ordered attribute sequence ... exactly those
        // encoded" as much as C10's "the FINGERPRINT is always exposed": reported under whichever is checked
        if check_prop == "C02" && i == got.len() && got.len() < want.len() {
            return Err(Violation::new("C02", "attribute_sequence", "iteration_ends_early", msg));
        }
        return Err(Violation::new("C10", "exposure", &tail_shape(view), msg));
    }
    // the same exposure however the iterator is driven (nth / skip / step_by / last / count)
    {
        let n = want.len();
        let (bp, bc) = if view.first_integrity.is_none() { ("C02", "attribute_sequence") } else { ("C10", "exposure") };
        let bad = |how: String| Violation::new(bp, bc, &tail_shape(view), format!("iter_attributes driven with {how} does not yield the exposed sequence that plain iteration yields ({})", tail_shape(view)));
        if msg.iter_attributes().count() != n {
            return Err(bad("count()".into()));
        }
        if msg.iter_attributes().last().map(|a| a.get_type().value()) != want.last().map(|w| w.0) {
            return Err(bad("last()".into()));
        }
        for k in 1..=n.min(6) {
            let got_k: Vec<u16> = msg.iter_attributes().skip(k).map(|a| a.get_type().value()).collect();
            let want_k: Vec<u16> = want[k..].iter().map(|w| w.0).collect();
            if got_k != want_k {
                return Err(bad(format!("skip({k})")));
            }
            if msg.iter_attributes().nth(k).map(|a| a.get_type().value()) != want.get(k).map(|w| w.0) {
                return Err(bad(format!("nth({k})")));
            }
        }
        // from the end as well: skipping to just before each of the last three positions
        for back in 1..=n.min(3) {
            let k = n - back;
            let got_k: Vec<u16> = msg.iter_attributes().skip(k).map(|a| a.get_type().value()).collect();
            let want_k: Vec<u16> = want[k..].iter().map(|w| w.0).collect();
            if got_k != want_k {
                return Err(bad(format!("skip({k})")));
            }
        }
        // an iterator stepped by hand and then finished by a folding consumer (fold / count / last)
        for k in 1..=n.min(5) {
            let mut it = msg.iter_attributes();
            for _ in 0..k {
                it.next();
            }
            let got_f: Vec<u16> = it.fold(vec![], |mut v, a| {
                v.push(a.get_type().value());
                v
            });
            let want_k: Vec<u16> = want[k..].iter().map(|w| w.0).collect();
            if got_f != want_k {
                return Err(bad(format!("next() x{k} then fold()")));
            }
            if msg.iter_attributes().skip(k).count() != n - k {
                return Err(bad(format!("skip({k}).count()")));
            }
            if msg.iter_attributes().skip(k).last().map(|a| a.get_type().value()) != want[k..].last().map(|w| w.0) {
                return Err(bad(format!("skip({k}).last()")));
            }
        }
        for step in [2usize, 3] {
            let got_s: Vec<u16> = msg.iter_attributes().step_by(step).map(|a| a.get_type().value()).collect();
            let want_s: Vec<u16> = want.iter().step_by(step).map(|w| w.0).collect();
            if got_s != want_s {
                return Err(bad(format!("step_by({step})")));
            }
        }
    }
    // lookups: first match in the exposed list; absent types are absent
    let mut types: Vec<u16> = want.iter().map(|w| w.0).collect();
    types.extend_from_slice(&[MI, MI256, FP, 0x8022, 0x0006, 0x7f00]);
    // also types that are present in the body but hidden
    types.extend(view.all.iter().map(|a| a.ty));
    types.sort();
    types.dedup();
    let types_sorted = types.clone();
    for ty in types {
        let first = want.iter().find(|w| w.0 == ty);
        let at = AttributeType::new(ty);
        let r = msg.raw_attribute(at);
        let h = msg.has_attribute(at);
        let hidden = view.all.iter().any(|a| a.ty == ty) && first.is_none();
        let ending = ty == MI || ty == MI256 || ty == FP;
        let (prop, clause) = if hidden || (ending && check_prop != "C02") { ("C10", "lookup") } else { ("C02", "lookup_first_match") };
        match (first, &r) {
            (None, None) => {}
            (Some(w), Some(a)) if a.get_type().value() == ty && *a.value == *w.1 => {}
            _ => {
                return Err(Violation::new(prop, clause, if hidden { "hidden_attribute_returned" } else { "raw_attribute" }, format!("raw_attribute({ty:#06x}) = {:?}, expected {}", r.map(|a| (a.get_type().value(), a.value.len())), if first.is_some() { "the first exposed attribute of that type" } else { "None" })));
            }
        }
        if h != first.is_some() {
            return Err(Violation::new(prop, clause, "has_attribute", format!("has_attribute({ty:#06x}) = {h}, expected {}", first.is_some())));
        }
    }
    // the same answers in whatever order an application asks: once more in descending type order and
    // once in an order that alternates between the ends (a lookup must not depend on the one before it)
    let mut orders: Vec<Vec<u16>> = vec![types_sorted.iter().rev().copied().collect()];
    {
        let (mut lo, mut hi, mut alt) = (0usize, types_sorted.len(), vec![]);
        while lo < hi {
            hi -= 1;
            alt.push(types_sorted[hi]);
            if lo < hi {
                alt.push(types_sorted[lo]);
                lo += 1;
            }
        }
        orders.push(alt);
    }
    for order in orders {
        for ty in order {
            let first = want.iter().find(|w| w.0 == ty);
            let at = AttributeType::new(ty);
            let h = msg.has_attribute(at);
            let r = msg.raw_attribute(at);
            let hidden = view.all.iter().any(|a| a.ty == ty) && first.is_none();
            let ending = ty == MI || ty == MI256 || ty == FP;
            let (prop, clause) = if hidden || (ending && check_prop != "C02") { ("C10", "lookup") } else { ("C02", "lookup_first_match") };
            let ok = match (first, &r) {
                (None, None) => true,
                (Some(w), Some(a)) => a.get_type().value() == ty && *a.value == *w.1,
                _ => false,
            };
            if !ok || h != first.is_some() {
                return Err(Violation::new(prop, clause, if hidden { "hidden_attribute_returned_after_other_lookups" } else { "lookup_depends_on_earlier_lookups" }, format!("after other lookups on the same message, raw_attribute({ty:#06x}) = {:?} and has_attribute = {h}; expected {}", r.map(|a| (a.get_type().value(), a.value.len())), if first.is_some() { "the first exposed attribute of that type" } else { "None / false" })));
            }
        }
    }
    // typed lookups: `attribute::<T>()` is the typed decoder applied to the *first* exposed attribute
    // of T's type (C02: "lookups return the first match") — whether or not that one decodes
    macro_rules! typed_first {
        ($t:ident) => {{
            let ty = <$t>::TYPE.value();
            let first = want.iter().find(|w| w.0 == ty);
            let got = match guard(|| msg.attribute::<$t>()) {
                Guarded::Ok(v) => v,
                Guarded::Panicked(m, l) => return Err(Violation::new("C01", "no_panic", concat!("Message::attribute::<", stringify!($t), ">"), format!("typed lookup panicked: {m} at {}", short_loc(&l)))),
            };
            let hidden = view.all.iter().any(|a| a.ty == ty) && first.is_none();
            let ending = ty == MI || ty == MI256 || ty == FP;
            let (prop, clause) = if hidden || (ending && check_prop != "C02") { ("C10", "lookup") } else { ("C02", "lookup_first_match") };
            match first {
                None => {
                    if let Ok(v) = &got {
                        return Err(Violation::new(prop, clause, "typed_lookup", format!("attribute::<{}>() = Ok({v:?}) although no attribute of type {ty:#06x} is exposed", stringify!($t))));
                    }
                }
                Some(w) => {
                    let raw = RawAttribute::new(<$t>::TYPE, w.1);
                    let want_t = match guard(|| <$t>::from_raw(&raw)) {
                        Guarded::Ok(v) => v,
                        Guarded::Panicked(m, l) => return Err(Violation::new("C01", "no_panic", concat!(stringify!($t), "::from_raw"), format!("typed decoder panicked: {m} at {}", short_loc(&l)))),
                    };
                    let same = match (&got, &want_t) {
                        (Ok(a), Ok(b)) => format!("{a:?}") == format!("{b:?}"),
                        (Err(_), Err(_)) => true,
                        _ => false,
                    };
                    if !same {
                        return Err(Violation::new(prop, clause, "typed_lookup", format!("attribute::<{}>() = {:?}, but the typed decoder on the first exposed attribute of type {ty:#06x} ({} value bytes) gives {:?}", stringify!($t), got.as_ref().map(|v| format!("{v:?}")).map_err(|e| format!("{e:?}")), w.1.len(), want_t.as_ref().map(|v| format!("{v:?}")).map_err(|e| format!("{e:?}")))));
                    }
                }
            }
        }};
    }
    each_typed!(typed_first);
    Ok(())
}

/// `Message` is `Clone`: a clone exposes exactly what the original does (an application that queues
/// parsed messages).  Run after `compare_view` succeeded on the original.
pub fn compare_clone(buf: &[u8], msg: &Message, view: &RefView, check_prop: &str) -> ScResult {
    let c = msg.clone();
    compare_view(buf, &c, view, check_prop).map_err(|mut v| {
        v.message = format!("on a clone of the parsed message: {}", v.message);
        v
    })
}

/// Run the pipeline on one delivery.
pub fn receive(ctx: &mut Ctx, buf: &[u8], o: &PipeOpts) -> ScResult {
    // 1. demultiplexer peeking at the type (deliveries may be 0 or 1 byte long)
    let mt = g("MessageType::from_bytes", || MessageType::from_bytes(buf).map(|t| (t.class(), t.method(), t.is_response(), t.has_class(MessageClass::Error), t.has_method(t.method()), t.to_bytes(), format!("{t} {t:?}"))).is_ok())?;
    // the `TryFrom<&[u8]>` spellings of the same entry points (message type, attribute header)
    g("MessageType::try_from", || {
        let _ = MessageType::try_from(buf).map(|t| format!("{t}"));
    })?;
    g("AttributeHeader::try_from", || {
        let _ = AttributeHeader::try_from(buf).map(|h| format!("{h:?}"));
        if buf.len() > 20 {
            let _ = AttributeHeader::try_from(&buf[20..]).map(|h| format!("{h:?}"));
        }
    })?;
    if buf.len() < 2 {
        ctx.st.inc("probe.delivery_shorter_than_2_bytes");
    }
    let _ = mt;
    // 2. header
    let _hdr = g("MessageHeader::from_bytes", || MessageHeader::from_bytes(buf).map(|h| (h.data_length(), h.transaction_id(), h.get_type(), format!("{h:?}"))).is_ok())?;
    // 3. whole message
    let parsed = g("Message::from_bytes", || Message::from_bytes(buf))?;
    // the TryFrom<&[u8]> entry point is the same decoder
    // the TryFrom<&[u8]> entry point is a parser too: it is judged by C02's rule on its own (no
    // property says the two entry points must agree — each may make its own choice where C02 leaves
    // one, i.e. for over-long buffers)
    let via_try = g("Message::try_from", || Message::try_from(buf).is_ok())?;
    if o.oracle && via_try != parsed.is_ok() {
        match refcodec::decode(buf) {
            Verdict::Accept(_) if !via_try => return Err(Violation::new("C02", "accepts_wellformed", "Message::try_from", format!("a well-formed {}-byte message was refused by Message::try_from", buf.len()))),
            Verdict::Reject(causes) if via_try && !(causes.len() == 1 && matches!(causes[0], Cause::Excess { .. })) => {
                return Err(Violation::new("C02", "refuses_malformed", "Message::try_from", format!("a malformed {}-byte buffer was accepted by Message::try_from; defects present: {causes:?}", buf.len())));
            }
            _ => {}
        }
    }
    // 4. raw attribute decoder at 4-byte offsets of the body, typed decoders on what it returns
    let tid: TransactionId = crate::agentapi::tid_of(buf).unwrap_or(0).into();
    if buf.len() > 20 && o.sweep > 0 {
        let body = buf.len() - 20;
        let slots = body / 4 + 1;
        let step = (slots / o.sweep).max(1);
        let mut off = 20usize;
        let mut n = 0;
        while off <= buf.len() && n < o.sweep + 4 {
            let slice = &buf[off..];
            let r = g("RawAttribute::from_bytes", || RawAttribute::from_bytes(slice))?;
            if let Ok(raw) = r {
                typed_decoders(&raw, tid)?;
            }
            off += 4 * step;
            n += 1;
        }
        // and unaligned / tail positions
        for back in [1usize, 2, 3, 4, 5] {
            if buf.len() >= 20 + back {
                let slice = &buf[buf.len() - back..];
                let _ = g("RawAttribute::from_bytes", || RawAttribute::from_bytes(slice).is_ok())?;
            }
        }
    }
    if !o.interleave.is_empty() {
        ctx.st.inc("probe.other_messages_parsed_before_inspection");
        for other in o.interleave {
            let _ = g("Message::from_bytes", || Message::from_bytes(other).map(|m| m.transaction_id()).is_ok())?;
            let _ = g("MessageHeader::from_bytes", || MessageHeader::from_bytes(other).is_ok())?;
        }
    }
    let refv = if o.oracle { Some(refcodec::decode(buf)) } else { None };
    match &parsed {
        Err(e) => {
            ctx.st.inc(match e {
                StunParseError::NotStun => "verdict.NotStun",
                StunParseError::Truncated { .. } => "verdict.Truncated",
                StunParseError::TooLarge { .. } => "verdict.TooLarge",
                StunParseError::AttributeAfterIntegrity(_) => "verdict.AttributeAfterIntegrity",
                StunParseError::AttributeAfterFingerprint(_) => "verdict.AttributeAfterFingerprint",
                StunParseError::FingerprintMismatch => "verdict.FingerprintMismatch",
                _ => "verdict.other_error",
            });
            let _ = g("StunParseError::fmt", || format!("{e} {e:?}"))?;
            if let Some(rv) = &refv {
                match rv {
                    Verdict::Accept(_) => {
                        return Err(Violation::new("C02", "accepts_wellformed", err_site(e), format!("a well-formed {}-byte message was refused: {e:?}", buf.len())));
                    }
                    Verdict::Reject(causes) => {
                        if !err_matches(e, causes, buf.len()) {
                            return Err(Violation::new("C02", "rejection_names_cause", err_site(e), format!("refused with {e:?}; defects actually present: {causes:?}")));
                        }
                    }
                }
            }
        }
        Ok(msg) => {
            ctx.st.inc("verdict.accepted");
            if let Some(rv) = &refv {
                match rv {
                    Verdict::Accept(view) => {
                        if view.first_integrity.is_some() && view.all.last().map(|a| a.ty) == Some(FP) && view.all.len() - view.first_integrity.unwrap() == 3 {
                            ctx.st.inc("probe.both_integrity_attributes_and_fingerprint");
                        }
                        compare_view(buf, msg, view, &ctx.cfg.prop)?;
                        // one message in four is also inspected through a clone (decided by content)
                        if buf.len() % 4 == 0 && buf[buf.len() / 2] & 3 == 0 {
                            compare_clone(buf, msg, view, &ctx.cfg.prop)?;
                        }
                    }
                    Verdict::Reject(causes) => {
                        let only_excess = causes.len() == 1 && matches!(causes[0], Cause::Excess { .. });
                        let mut ok = false;
                        if only_excess {
                            // allowed alternative: behave exactly as on the buffer cut to its declared length
                            ctx.st.inc("probe.overlong_buffer_accepted");
                            let declared = (((buf[2] as usize) << 8) | buf[3] as usize) + 20;
                            if let Verdict::Accept(view) = refcodec::decode(&buf[..declared]) {
                                if compare_view(&buf[..declared], msg, &view, &ctx.cfg.prop).is_ok() {
                                    ok = true;
                                }
                            }
                        }
                        if !ok {
                            let c = causes.iter().find(|c| !matches!(c, Cause::Excess { .. })).unwrap_or(&causes[0]);
                            return Err(Violation::new("C02", "refuses_malformed", cause_site(c), format!("a malformed {}-byte buffer was accepted; defects present: {causes:?}{}", buf.len(), if only_excess { " (and the excess bytes were interpreted as attributes)" } else { "" })));
                        }
                    }
                }
            }
            // 5. read-only operations on the accepted message
            let n_attrs = g("Message::iter_attributes", || {
                let mut n = 0usize;
                for a in msg.iter_attributes() {
                    let _ = a.get_type().name();
                    n += 1;
                    if n > 20000 {
                        break;
                    }
                }
                n
            })?;
            if n_attrs > 20000 {
                return Err(Violation::new("C01", "terminates", "Message::iter_attributes", "iteration did not end".into()));
            }
            let attrs: Vec<RawAttribute> = g("Message::iter_attributes", || msg.iter_attributes().take(64).collect())?;
            for a in &attrs {
                typed_decoders(a, msg.transaction_id())?;
            }
            macro_rules! typed_lookup {
                ($t:ident) => {
                    g(concat!("Message::attribute::<", stringify!($t), ">"), || match msg.attribute::<$t>() {
                        Ok(v) => {
                            let _ = format!("{v}");
                        }
                        Err(e) => {
                            let _ = format!("{e}");
                        }
                    })?;
                    g("Message::raw_attribute", || {
                        let _ = msg.raw_attribute(<$t>::TYPE);
                        let _ = msg.has_attribute(<$t>::TYPE);
                    })?;
                };
            }
            each_typed!(typed_lookup);
            g("Message::raw_attribute", || {
                let _ = msg.raw_attribute(AttributeType::new(0x7f00));
                let _ = msg.has_attribute(AttributeType::new(0xffff));
            })?;
            for c in o.creds {
                let lc = c.lib();
                let r = g("Message::validate_integrity", || msg.validate_integrity(&lc).map_err(|e| format!("{e:?}")))?;
                if r.is_ok() {
                    ctx.st.inc("probe.validate_integrity_ok");
                }
            }
            // policing, on requests *and* non-requests, with drawn supported / required sets
            let present: Vec<AttributeType> = attrs.iter().map(|a| a.get_type()).collect();
            let mut supported: Vec<AttributeType> = vec![];
            let mut required: Vec<AttributeType> = vec![];
            // supported: nothing / everything present / a subset / everything present plus many
            // others (so that large *required* sets are reached without tripping the 420 branch)
            let mode = ctx.ch.below(5);
            for t in &present {
                if mode == 1 || mode >= 3 || (mode == 2 && ctx.ch.coin()) {
                    supported.push(*t);
                }
            }
            if mode == 4 {
                for (t, _) in crate::gen::KNOWN_TYPES {
                    supported.push(AttributeType::new(*t));
                }
                let extra = ctx.ch.below(40);
                for _ in 0..extra {
                    supported.push(AttributeType::new(ctx.ch.below(1 << 16) as u16));
                }
            }
            // required: none / one / a few / many (up to 80 entries, duplicates allowed), drawn from
            // the types present, the known types and arbitrary 16-bit values, in drawn positions
            let rsize = match ctx.ch.below(6) {
                0 | 1 => 0,
                2 => 1,
                3 => ctx.ch.range(2, 5),
                4 => ctx.ch.range(30, 40),
                _ => ctx.ch.range(41, 80),
            };
            for _ in 0..rsize {
                let t = match ctx.ch.below(3) {
                    0 if !present.is_empty() => *ctx.ch.pick(&present),
                    1 => AttributeType::new(crate::gen::KNOWN_TYPES[ctx.ch.below(crate::gen::KNOWN_TYPES.len() as u64) as usize].0),
                    _ => AttributeType::new(ctx.ch.below(1 << 16) as u16),
                };
                required.push(t);
            }
            if rsize > 32 {
                ctx.st.inc("probe.policing_required_set_larger_than_32");
            }
            if !msg.has_class(MessageClass::Request) {
                ctx.st.inc("probe.policing_non_request");
            }
            g("Message::check_attribute_types", || {
                if let Some(b) = Message::check_attribute_types(msg, &supported, &required) {
                    let bytes = b.build();
                    let _ = Message::from_bytes(&bytes).map(|m| format!("{m}"));
                }
            })?;
            // (messages over 2 KB: Display always, the byte-by-byte Debug one time in eight)
            let dbg_it = buf.len() <= 2048 || ctx.ch.rare(1, 8);
            g("Message::fmt", || {
                let _ = format!("{msg}");
                if dbg_it {
                    let _ = format!("{msg:?}");
                }
            })?;
        }
    }
    Ok(())
}

/// Run `f` with a tracing subscriber installed on this thread (formatting everything at TRACE
/// level into a sink), so that `#[instrument(ret)]`, Display and Debug of arguments really run.
pub fn with_subscriber<R>(f: impl FnOnce() -> R) -> R {
    let sub = tracing_subscriber::fmt().with_max_level(tracing::Level::TRACE).with_writer(std::io::sink).finish();
    tracing::subscriber::with_default(sub, f)
}
