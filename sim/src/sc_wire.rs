//! Scenario `wire`: mixed traffic from library-built and foreign senders through the fault table
//! into a receiver running the complete receive pipeline.  Serves C01 (no panic / no hang) and
//! C02 (accept/reject verdict and exposed view equal the reference decoder's).
//! Profiles: baseline (fault-free), faults (1–3 faults), hostile (every message damaged,
//! structure-aware), bigbuf (deliveries of 60 000–70 000 bytes around the 16-bit boundary).

use crate::core::{Ctx, ScResult};
use crate::ev;
use crate::faults;
use crate::gen::*;
use crate::pipeline::{receive, with_subscriber, PipeOpts};

pub fn gen_message(ctx: &mut Ctx, creds: &Creds, pool: &[std::net::SocketAddr], big: usize) -> (Vec<u8>, String) {
    if ctx.ch.rare(2, 5) {
        ctx.st.inc("op.foreign_message");
        let mut m = gen_foreign(ctx.ch, creds, if big > 0 { 0 } else { 4 });
        if big > 0 {
            // size the big attribute so that the whole message still fits the 16-bit length field
            let base = m.encode().len();
            let l = big_len(ctx, 65_552 - base - 4);
            m.items.insert(0, crate::refcodec::RefItem::Attr { ty: 0x7f01, value: ctx.ch.bytes(l), pad: 0 });
        }
        let b = m.encode();
        let d = format!("foreign {} items", m.items.len());
        (b, d)
    } else {
        ctx.st.inc("op.library_message");
        let variant = ctx.ch.below(8);
        let mut attrs = if big > 0 { vec![] } else { gen_attrs(ctx.ch, pool, &SpecOpts { max_attrs: 4, big: 0 }) };
        if big > 0 {
            let seal_bytes: usize = seals_of(variant, creds).iter().map(|s| match s { Seal::Sha1(_) => 24, Seal::Sha256(_) => 36, Seal::Fp => 8 }).sum();
            let l = big_len(ctx, 65_532 - 4 - seal_bytes);
            attrs.insert(0, TAttr::Raw(0x7f01, ctx.ch.bytes(l)));
        }
        let spec = MsgSpec { class: ctx.ch.below(4) as u8, method: *ctx.ch.pick(&[1u16, 0, 0xfff, 3]), tid: gen_tid(ctx.ch), attrs, seals: seals_of(variant, creds) };
        let b = spec.build();
        (b, spec.desc())
    }
}

/// Length of the big attribute, at most `max` (a multiple of 4): biased to the very end of the
/// 16-bit range so that the trailing attributes land within a few bytes of offset 65 535.
fn big_len(ctx: &mut Ctx, max: usize) -> usize {
    let delta = *ctx.ch.pick(&[0usize, 1, 2, 3, 4, 8, 12, 16, 20, 24, 28, 32, 36, 40, 44, 64, 100, 5000]);
    max - delta
}

pub fn scenario(ctx: &mut Ctx) -> ScResult {
    let profile = ctx.cfg.profile.clone();
    let creds = gen_creds(ctx.ch);
    let other = gen_other_creds(ctx.ch, &creds);
    let pool = gen_addr_pool(ctx.ch, 3);
    let tracing_on = ctx.ch.rare(1, 4);
    if tracing_on {
        ctx.st.inc("probe.tracing_subscriber_installed");
    }
    let big = if profile == "bigbuf" { 1 } else { 0 };
    let n_msgs = if big > 0 { ctx.ch.range(1, 2) } else { ctx.ch.range(1, 4) } as usize;
    let mut msgs = vec![];
    for _ in 0..n_msgs {
        let (b, d) = gen_message(ctx, &creds, &pool, big);
        ev!(ctx, "message {}B: {}", b.len(), d);
        msgs.push(b);
    }
    // (A probe that handed the typed decoders hand-built raw attributes of more than 65 535 bytes
    // was removed after the third review round: such an attribute has no wire form and cannot come
    // out of any decoding entry point, so it is outside C01 as read here — DESIGN §14.2.)
    let w = faults::weights(if profile == "bigbuf" { "faults" } else { &profile });
    let cl = [creds.clone(), other.clone()];
    // one run in four: the receiver parses the whole batch before it inspects any message of it
    let batch_mode = big == 0 && msgs.len() > 1 && ctx.ch.rare(1, 4);
    let no_interleave: Vec<Vec<u8>> = vec![];
    let all_msgs = msgs.clone();
    let opts = PipeOpts { oracle: ctx.cfg.prop != "C01", creds: &cl, sweep: if big > 0 { 24 } else { 48 }, interleave: if batch_mode { &all_msgs } else { &no_interleave } };
    let mut any_fault = false;
    for i in 0..msgs.len() {
        let mut buf = msgs[i].clone();
        let nf = match profile.as_str() {
            "baseline" => 0,
            "hostile" => ctx.ch.range(1, 4),
            "bigbuf" => ctx.ch.range(0, 2),
            _ => ctx.ch.range(1, 3),
        };
        let next = msgs.get(i + 1).cloned();
        // duplication: one copy arrives intact, the other damaged (a retransmission that got
        // corrupted) — a receiver that remembers anything about the intact copy (a verdict cache, a
        // memoised key or CRC) must still judge the damaged one on its own bytes
        if nf > 0 && ctx.ch.rare(1, 3) {
            ctx.st.inc("fault.duplicate_intact_then_damaged");
            ev!(ctx, "  deliver intact copy first ({}B)", buf.len());
            let r = if tracing_on { with_subscriber(|| receive(ctx, &buf, &opts)) } else { receive(ctx, &buf, &opts) };
            if let Err(v) = r {
                ev!(ctx, "  !! {} [{}]: {}", v.clause, v.site, v.message);
                return Err(v);
            }
        }
        for _ in 0..nf {
            let label = faults::apply(ctx.ch, &mut buf, next.as_deref(), &w, &mut ctx.st);
            if !label.is_empty() {
                any_fault = true;
                ev!(ctx, "  fault {label} -> {}B", buf.len());
            }
        }
        if buf.len() > 65_555 {
            ctx.st.inc("probe.delivery_longer_than_16bit_message");
        }
        if buf.len() >= 20 {
            let declared = (((buf[2] as usize) << 8) | buf[3] as usize) + 20;
            if declared < buf.len() {
                ctx.st.inc("probe.buffer_longer_than_declared_length");
            }
        }
        ev!(ctx, "  deliver {}B {}", buf.len(), hex(&buf[..buf.len().min(48)]));
        let r = if tracing_on { with_subscriber(|| receive(ctx, &buf, &opts)) } else { receive(ctx, &buf, &opts) };
        if let Err(mut v) = r {
            // a parser that panics gives no verdict at all: under C02 ("accepted if and only if ...; a
            // rejection names its cause") that is a violation in its own right, not only C01's
            if ctx.cfg.prop == "C02" && v.property == "C01" && (v.site == "Message::from_bytes" || v.site == "Message::try_from") {
                v = crate::core::Violation::new("C02", "verdict_given", &v.site.clone(), format!("the parser gave no verdict: {}", v.message));
            }
            ev!(ctx, "  !! {} [{}]: {}", v.clause, v.site, v.message);
            return Err(v);
        }
    }
    ctx.st.nontrivial = any_fault || msgs.iter().any(|m| m.len() > 20);
    Ok(())
}
