//! Run context, event log, statistics, violations, batch runner, shrinker, replay files.
//! See DESIGN.md §3.1, §3.7–§3.9.

use crate::choices::Choices;
use serde_json::{json, Value};
use std::cell::{Cell, RefCell};
use std::collections::{BTreeMap, HashSet};
use std::panic::{catch_unwind, AssertUnwindSafe};
use std::sync::atomic::{AtomicU64, Ordering};
use std::sync::Mutex;
use std::time::Instant;

// ------------------------------------------------------------------------------------------------
// violations

#[derive(Clone, Debug, PartialEq, Eq)]
pub struct Violation {
    pub property: String,
    /// oracle clause, e.g. `C06.wait_self_consistent`
    pub clause: String,
    /// structural description of the witness, e.g. `excess_bytes`
    pub site: String,
    pub message: String,
}

impl Violation {
    pub fn new(property: &str, clause: &str, site: &str, message: String) -> Self {
        Self { property: property.into(), clause: format!("{property}.{clause}"), site: site.into(), message }
    }
    pub fn sig(&self) -> (String, String, String) {
        (self.property.clone(), self.clause.clone(), self.site.clone())
    }
    pub fn to_json(&self) -> Value {
        json!({"property": self.property, "clause": self.clause, "site": self.site, "message": self.message})
    }
}

pub type ScResult = Result<(), Violation>;

/// A harness (not library) failure: never reported as a violation; exit status 2.
#[derive(Debug)]
pub struct HarnessError(pub String);

// ------------------------------------------------------------------------------------------------
// configuration of one scenario batch

#[derive(Clone, Debug)]
pub struct Cfg {
    /// property under check: violations of other properties' clauses are counted, not reported
    pub prop: String,
    pub scenario: String,
    pub profile: String,
    pub thorough: bool,
}

impl Cfg {
    pub fn to_json(&self) -> Value {
        json!({"prop": self.prop, "scenario": self.scenario, "profile": self.profile, "thorough": self.thorough})
    }
    pub fn from_json(v: &Value) -> Option<Self> {
        Some(Self {
            prop: v.get("prop")?.as_str()?.into(),
            scenario: v.get("scenario")?.as_str()?.into(),
            profile: v.get("profile")?.as_str()?.into(),
            thorough: v.get("thorough")?.as_bool()?,
        })
    }
}

// ------------------------------------------------------------------------------------------------
// event log + stats

pub fn fnv(h: u64, bytes: &[u8]) -> u64 {
    let mut h = h;
    for &b in bytes {
        h ^= b as u64;
        h = h.wrapping_mul(0x100000001b3);
    }
    h
}
pub const FNV0: u64 = 0xcbf29ce484222325;

pub struct Log {
    pub hash: u64,
    pub verbose: bool,
    pub lines: Vec<String>,
    buf: String,
    pub events: u64,
}

impl Log {
    pub fn new(verbose: bool) -> Self {
        Self { hash: FNV0, verbose, lines: vec![], buf: String::with_capacity(256), events: 0 }
    }
    pub fn ev(&mut self, a: std::fmt::Arguments) {
        use std::fmt::Write;
        self.buf.clear();
        let _ = self.buf.write_fmt(a);
        self.hash = fnv(self.hash, self.buf.as_bytes());
        self.hash = fnv(self.hash, b"\n");
        self.events += 1;
        if self.verbose && self.lines.len() < 4000 {
            self.lines.push(self.buf.clone());
        }
    }
}

#[macro_export]
macro_rules! ev {
    ($ctx:expr, $($arg:tt)*) => { $ctx.log.ev(format_args!($($arg)*)) };
}

#[derive(Default, Clone)]
pub struct Stats {
    pub c: BTreeMap<&'static str, u64>,
    pub states: HashSet<u64>,
    pub grams: HashSet<u64>,
    pub sim_ns: u128,
    /// set by the scenario: this run contained a fired fault / an interleaving / a mutant etc.
    pub nontrivial: bool,
    /// inner cases evaluated by this run (e.g. mutants); 0 => counts as 1
    pub cases: u64,
    pub cases_nontrivial: u64,
}

impl Stats {
    pub fn inc(&mut self, k: &'static str) {
        *self.c.entry(k).or_insert(0) += 1;
    }
    pub fn add(&mut self, k: &'static str, n: u64) {
        *self.c.entry(k).or_insert(0) += n;
    }
    pub fn merge(&mut self, o: &Stats) {
        for (k, v) in &o.c {
            *self.c.entry(k).or_insert(0) += v;
        }
        self.states.extend(o.states.iter().copied());
        self.grams.extend(o.grams.iter().copied());
        self.sim_ns += o.sim_ns;
        self.cases += o.cases;
        self.cases_nontrivial += o.cases_nontrivial;
    }
}

pub struct Ctx<'a> {
    pub ch: &'a mut Choices,
    pub log: Log,
    pub st: Stats,
    pub cfg: &'a Cfg,
    /// distinct inner-case hashes (for scenarios that evaluate many mutants per run)
    pub case_hashes: Vec<u64>,
    /// set by the message generator when the library's own builder produced a FINGERPRINT that the
    /// reference decoder refuses (description, bytes); consumed by the C09 scenario
    pub builder_fp_wrong: Option<(String, Vec<u8>)>,
    /// a TRACE-level tracing subscriber is installed on this thread for the whole run
    pub tracing_on: bool,
}

impl<'a> Ctx<'a> {
    pub fn fail(&self, property: &str, clause: &str, site: &str, message: String) -> Violation {
        Violation::new(property, clause, site, message)
    }
}

// ------------------------------------------------------------------------------------------------
// panic capture

thread_local! {
    static LAST_PANIC: RefCell<Option<(String, String)>> = RefCell::new(None);
    static QUIET: Cell<bool> = Cell::new(false);
    /// >0 while a call into the library under test is in progress
    pub static IN_LIB: Cell<u32> = Cell::new(0);
    static PANIC_IN_LIB: Cell<bool> = Cell::new(false);
}

pub fn install_panic_hook() {
    let default = std::panic::take_hook();
    std::panic::set_hook(Box::new(move |info| {
        let quiet = QUIET.with(|q| q.get());
        let loc = info.location().map(|l| format!("{}:{}", l.file(), l.line())).unwrap_or_else(|| "?".into());
        let msg = if let Some(s) = info.payload().downcast_ref::<&str>() {
            s.to_string()
        } else if let Some(s) = info.payload().downcast_ref::<String>() {
            s.clone()
        } else {
            "non-string panic".into()
        };
        if quiet {
            let inlib = IN_LIB.with(|c| c.get()) > 0;
            PANIC_IN_LIB.with(|c| c.set(inlib));
            LAST_PANIC.with(|p| *p.borrow_mut() = Some((msg, loc)));
        } else {
            default(info);
        }
    }));
}

fn is_library_location(loc: &str) -> bool {
    loc.contains("stun-types/") || loc.contains("stun-proto/")
}
fn is_harness_location(loc: &str) -> bool {
    loc.contains("sim/src/") || loc.starts_with("src/")
}

/// Result of a guarded library call.
pub enum Guarded<T> {
    Ok(T),
    /// (message, location)
    Panicked(String, String),
}

/// Heartbeats for the watchdog: one counter per worker, bumped on entry to and exit from every call
/// into the library.  A hang is a *single library call* that does not return for WATCHDOG_SECS of
/// wall time; a long run made of many short calls (a big message with all its mutants, on a loaded
/// machine) is not.
pub static BEATS: [AtomicU64; 64] = [const { AtomicU64::new(0) }; 64];
thread_local! {
    pub static WORKER: Cell<usize> = Cell::new(63);
}
#[inline]
pub fn beat() {
    let w = WORKER.with(|c| c.get());
    BEATS[w].fetch_add(1, Ordering::Relaxed);
}

/// Run `f` (a call into the library under test) catching panics.  A panic whose location is in
/// harness code is re-raised (it is a harness bug, not a finding).
pub fn guard<T>(f: impl FnOnce() -> T) -> Guarded<T> {
    IN_LIB.with(|c| c.set(c.get() + 1));
    beat();
    let r = catch_unwind(AssertUnwindSafe(f));
    beat();
    IN_LIB.with(|c| c.set(c.get() - 1));
    match r {
        Ok(v) => Guarded::Ok(v),
        Err(p) => {
            let (msg, loc) = LAST_PANIC.with(|p| p.borrow_mut().take()).unwrap_or(("?".into(), "?".into()));
            if is_harness_location(&loc) && !is_library_location(&loc) {
                std::panic::resume_unwind(p);
            }
            Guarded::Panicked(msg, loc)
        }
    }
}

/// Strip the machine-specific prefix from a panic location so that signatures are stable.
pub fn short_loc(loc: &str) -> String {
    if let Some(i) = loc.find("stun-types/") {
        return loc[i..].to_string();
    }
    if let Some(i) = loc.find("stun-proto/") {
        return loc[i..].to_string();
    }
    loc.to_string()
}

// ------------------------------------------------------------------------------------------------
// one run

pub type ScenarioFn = fn(&mut Ctx) -> ScResult;

pub struct RunOut {
    pub result: Result<(), Violation>,
    pub harness_error: Option<String>,
    pub hash: u64,
    pub stats: Stats,
    pub lines: Vec<String>,
    pub rec: Vec<u64>,
    pub case_hashes: Vec<u64>,
}

pub fn run_one(f: ScenarioFn, cfg: &Cfg, mut ch: Choices, verbose: bool) -> RunOut {
    QUIET.with(|q| q.set(true));
    let mut ctx = Ctx { ch: &mut ch, log: Log::new(verbose), st: Stats::default(), cfg, case_hashes: vec![], builder_fp_wrong: None, tracing_on: false };
    // buggify: in one run of eight (scenario `wire` decides for itself) a tracing subscriber that
    // formats everything down to TRACE is installed for the whole run, so that #[instrument]
    // arguments, `ret` values and every log statement of the library really get evaluated
    let tracing_on = cfg.scenario != "wire" && !(cfg.scenario == "tcpstream" && cfg.profile == "lifetime") && ctx.ch.rare(1, if cfg.scenario == "agent" || cfg.scenario == "world" || cfg.scenario == "tcpstream" { 20 } else { 8 });
    if tracing_on {
        ctx.st.inc("probe.tracing_subscriber_installed");
    }
    ctx.tracing_on = tracing_on;
    let r = catch_unwind(AssertUnwindSafe(|| if tracing_on { crate::pipeline::with_subscriber(|| f(&mut ctx)) } else { f(&mut ctx) }));
    QUIET.with(|q| q.set(false));
    let mut harness_error = None;
    let result = match r {
        Ok(r) => r,
        Err(_) => {
            let (msg, loc) = LAST_PANIC.with(|p| p.borrow_mut().take()).unwrap_or(("?".into(), "?".into()));
            let inlib = PANIC_IN_LIB.with(|c| c.get());
            IN_LIB.with(|c| c.set(0));
            if is_library_location(&loc) || (inlib && !is_harness_location(&loc)) {
                // an unguarded library call panicked: attribute to the property under check
                ev!(ctx, "PANIC in library: {msg} at {}", short_loc(&loc));
                Err(Violation::new(&cfg.prop, "panic", &short_loc(&loc), format!("library panicked: {msg} at {}", short_loc(&loc))))
            } else {
                harness_error = Some(format!("harness panic: {msg} at {loc}"));
                Ok(())
            }
        }
    };
    let Ctx { log, st, case_hashes, .. } = ctx;
    RunOut { result, harness_error, hash: log.hash, stats: st, lines: log.lines, rec: ch.rec, case_hashes }
}

// ------------------------------------------------------------------------------------------------
// known findings

#[derive(Clone, Debug)]
pub struct Finding {
    pub status: String,
    pub property: String,
    pub clause: String,
    pub site: String,
    pub what: String,
    pub commit: Option<String>,
}

pub fn load_findings(path: &str) -> Result<Vec<Finding>, HarnessError> {
    let s = match std::fs::read_to_string(path) {
        Ok(s) => s,
        Err(_) => return Ok(vec![]),
    };
    let v: Value = serde_json::from_str(&s).map_err(|e| HarnessError(format!("{path}: {e}")))?;
    let mut out = vec![];
    for e in v.as_array().ok_or_else(|| HarnessError(format!("{path}: not a list")))? {
        let g = |k: &str| e.get(k).and_then(|x| x.as_str()).unwrap_or("").to_string();
        out.push(Finding {
            status: g("status"),
            property: g("property"),
            clause: g("clause"),
            site: g("site"),
            what: g("what"),
            commit: e.get("commit").and_then(|x| x.as_str()).map(|s| s.to_string()),
        });
    }
    Ok(out)
}

pub fn known_match<'a>(f: &'a [Finding], v: &Violation) -> Option<&'a Finding> {
    f.iter().find(|k| k.status == "known" && k.property == v.property && k.clause == v.clause && k.site == v.site)
}

// ------------------------------------------------------------------------------------------------
// batch

pub struct BatchOut {
    pub cfg: Cfg,
    pub runs: u64,
    pub stats: Stats,
    pub hashes: HashSet<u64>,
    pub case_hashes: HashSet<u64>,
    pub nontrivial_hashes: HashSet<u64>,
    pub violation: Option<(u64, Violation, Vec<u64>)>,
    pub foreign: BTreeMap<String, u64>,
    pub known_hits: BTreeMap<(String, String, String), u64>,
    pub harness_errors: Vec<String>,
    pub wall_s: f64,
    pub events: u64,
}

pub fn scenario_id(name: &str) -> u64 {
    fnv(FNV0, name.as_bytes())
}

pub fn run_batch(f: ScenarioFn, cfg: &Cfg, seed: u64, first_run: u64, runs: u64, threads: usize, known: &[Finding]) -> BatchOut {
    let t0 = Instant::now();
    let next = AtomicU64::new(first_run);
    let end = first_run + runs;
    let stop_at = AtomicU64::new(u64::MAX);
    let sid = scenario_id(&cfg.scenario) ^ scenario_id(&cfg.profile).rotate_left(17);
    struct Acc {
        stats: Stats,
        hashes: HashSet<u64>,
        case_hashes: HashSet<u64>,
        nontrivial: HashSet<u64>,
        viol: Option<(u64, Violation, Vec<u64>)>,
        foreign: BTreeMap<String, u64>,
        known_hits: BTreeMap<(String, String, String), u64>,
        herr: Vec<String>,
        done: u64,
    }
    let total = Mutex::new(Acc {
        stats: Stats::default(),
        hashes: HashSet::new(),
        case_hashes: HashSet::new(),
        nontrivial: HashSet::new(),
        viol: None,
        foreign: BTreeMap::new(),
        known_hits: BTreeMap::new(),
        herr: vec![],
        done: 0,
    });
    // watchdog: per worker, the wall-clock second at which its current run started (0 = idle)
    let started: Vec<AtomicU64> = (0..threads).map(|_| AtomicU64::new(0)).collect();
    let started_run: Vec<AtomicU64> = (0..threads).map(|_| AtomicU64::new(0)).collect();
    let finished = AtomicU64::new(0);
    std::thread::scope(|s| {
        for w in 0..threads {
            let next = &next;
            let stop_at = &stop_at;
            let total = &total;
            let started = &started;
            let started_run = &started_run;
            let finished = &finished;
            let builder = std::thread::Builder::new().stack_size(16 << 20);
            builder
                .spawn_scoped(s, move || {
                    let mut local = Acc {
                        stats: Stats::default(),
                        hashes: HashSet::new(),
                        case_hashes: HashSet::new(),
                        nontrivial: HashSet::new(),
                        viol: None,
                        foreign: BTreeMap::new(),
                        known_hits: BTreeMap::new(),
                        herr: vec![],
                        done: 0,
                    };
                    WORKER.with(|c| c.set(w.min(62)));
                    loop {
                        let i = next.fetch_add(1, Ordering::SeqCst);
                        if i >= end || i > stop_at.load(Ordering::SeqCst) {
                            break;
                        }
                        started_run[w].store(i, Ordering::SeqCst);
                        started[w].store(t0.elapsed().as_secs() + 1, Ordering::SeqCst);
                        let ch = Choices::generating(seed, sid, i);
                        let out = run_one(f, cfg, ch, false);
                        started[w].store(0, Ordering::SeqCst);
                        local.done += 1;
                        if let Some(h) = out.harness_error {
                            local.herr.push(format!("run {i}: {h}"));
                            stop_at.fetch_min(i, Ordering::SeqCst);
                            continue;
                        }
                        local.hashes.insert(out.hash);
                        if out.stats.nontrivial {
                            local.nontrivial.insert(out.hash);
                        }
                        local.case_hashes.extend(out.case_hashes.iter().copied());
                        local.stats.merge(&out.stats);
                        if let Err(v) = out.result {
                            if v.property != cfg.prop {
                                *local.foreign.entry(v.clause.clone()).or_insert(0) += 1;
                            } else if known_match(known, &v).is_some() {
                                *local.known_hits.entry(v.sig()).or_insert(0) += 1;
                            } else {
                                stop_at.fetch_min(i, Ordering::SeqCst);
                                let better = match &local.viol {
                                    Some((j, _, _)) => i < *j,
                                    None => true,
                                };
                                if better {
                                    local.viol = Some((i, v, out.rec));
                                }
                            }
                        }
                    }
                    let mut t = total.lock().unwrap();
                    t.stats.merge(&local.stats);
                    t.hashes.extend(local.hashes);
                    t.case_hashes.extend(local.case_hashes);
                    t.nontrivial.extend(local.nontrivial);
                    for (k, v) in local.foreign {
                        *t.foreign.entry(k).or_insert(0) += v;
                    }
                    for (k, v) in local.known_hits {
                        *t.known_hits.entry(k).or_insert(0) += v;
                    }
                    t.herr.extend(local.herr);
                    t.done += local.done;
                    if let Some((i, v, rec)) = local.viol {
                        let better = match &t.viol {
                            Some((j, _, _)) => i < *j,
                            None => true,
                        };
                        if better {
                            t.viol = Some((i, v, rec));
                        }
                    }
                    finished.fetch_add(1, Ordering::SeqCst);
                })
                .expect("spawn worker");
        }
        // watchdog on this (main) thread: a worker that is inside a run and whose heartbeat (bumped
        // around every library call) has not moved for WATCHDOG_SECS is hung inside one call; a run
        // that keeps making calls is given RUN_CAP_SECS in all (harness loops that never call the
        // library are a harness error, not a finding, but must not spin for ever either)
        let mut last_beat: Vec<(u64, u64)> = (0..threads).map(|w| (BEATS[w.min(62)].load(Ordering::Relaxed), 0u64)).collect();
        loop {
            if finished.load(Ordering::SeqCst) as usize == threads {
                break;
            }
            std::thread::sleep(std::time::Duration::from_millis(20));
            let now = t0.elapsed().as_secs() + 1;
            for w in 0..threads {
                let st = started[w].load(Ordering::SeqCst);
                if st == 0 {
                    last_beat[w].1 = now;
                    continue;
                }
                let b = BEATS[w.min(62)].load(Ordering::Relaxed);
                if b != last_beat[w].0 || last_beat[w].1 < st {
                    last_beat[w] = (b, now.max(st));
                }
                if now > last_beat[w].1 + crate::WATCHDOG_SECS || now > st + crate::RUN_CAP_SECS {
                    let run = started_run[w].load(Ordering::SeqCst);
                    crate::report_hang(cfg, seed, run);
                }
            }
        }
    });
    let t = total.into_inner().unwrap();
    let events = 0;
    BatchOut {
        cfg: cfg.clone(),
        runs: t.done,
        stats: t.stats,
        hashes: t.hashes,
        case_hashes: t.case_hashes,
        nontrivial_hashes: t.nontrivial,
        violation: t.viol,
        foreign: t.foreign,
        known_hits: t.known_hits,
        harness_errors: t.herr,
        wall_s: t0.elapsed().as_secs_f64(),
        events,
    }
}

// ------------------------------------------------------------------------------------------------
// shrinking

fn fails_same(f: ScenarioFn, cfg: &Cfg, v: &[u64], sig: &(String, String, String)) -> Option<Vec<u64>> {
    let out = run_one(f, cfg, Choices::replaying(v.to_vec()), false);
    match out.result {
        Err(e) if &e.sig() == sig && out.harness_error.is_none() => {
            // normalise: the recorded vector is what was actually consumed
            Some(out.rec)
        }
        _ => None,
    }
}

/// Minimise a failing choice vector while a violation with the same signature persists.
pub fn shrink(f: ScenarioFn, cfg: &Cfg, start: Vec<u64>, sig: &(String, String, String)) -> (Vec<u64>, u64) {
    let t0 = Instant::now();
    let mut execs = 0u64;
    let budget_execs = 3000u64;
    let budget_s = 30.0;
    let mut best = start;
    // trailing zeros carry no information (exhausted vector => 0)
    let trim = |v: &mut Vec<u64>| {
        while v.last() == Some(&0) {
            v.pop();
        }
    };
    trim(&mut best);
    let mut try_v = |cand: Vec<u64>, best: &mut Vec<u64>, execs: &mut u64| -> bool {
        if *execs >= budget_execs || t0.elapsed().as_secs_f64() > budget_s {
            return false;
        }
        *execs += 1;
        if let Some(mut rec) = fails_same(f, cfg, &cand, sig) {
            while rec.last() == Some(&0) {
                rec.pop();
            }
            // accept only if not larger (lexicographic on (len, sum))
            let better = rec.len() < best.len() || (rec.len() == best.len() && rec.iter().map(|&x| x as u128).sum::<u128>() < best.iter().map(|&x| x as u128).sum::<u128>());
            if better {
                *best = rec;
                return true;
            }
        }
        false
    };
    // 1. truncate tail (binary search for the shortest failing prefix)
    {
        let mut lo = 0usize;
        let mut hi = best.len();
        while lo < hi {
            let mid = (lo + hi) / 2;
            let cand = best[..mid].to_vec();
            if try_v(cand, &mut best, &mut execs) {
                hi = best.len().min(mid);
            } else {
                lo = mid + 1;
            }
            if execs >= budget_execs {
                break;
            }
        }
    }
    let mut progress = true;
    while progress && execs < budget_execs && t0.elapsed().as_secs_f64() < budget_s {
        progress = false;
        // 2. delete chunks
        for &k in &[64usize, 32, 16, 8, 4, 2, 1] {
            let mut i = 0;
            while i + k <= best.len() {
                let mut cand = best.clone();
                cand.drain(i..i + k);
                if try_v(cand, &mut best, &mut execs) {
                    progress = true;
                } else {
                    i += k;
                }
                if execs >= budget_execs {
                    break;
                }
            }
        }
        // 3. zero chunks
        for &k in &[8usize, 4, 2, 1] {
            let mut i = 0;
            while i + k <= best.len() {
                if best[i..i + k].iter().all(|&x| x == 0) {
                    i += k;
                    continue;
                }
                let mut cand = best.clone();
                for x in &mut cand[i..i + k] {
                    *x = 0;
                }
                if try_v(cand, &mut best, &mut execs) {
                    progress = true;
                }
                i += k;
                if execs >= budget_execs {
                    break;
                }
            }
        }
        // 4. lower single values (binary search towards 0)
        let mut i = 0;
        while i < best.len() && execs < budget_execs {
            if best[i] > 0 {
                let mut lo = 0u64;
                let mut hi = best[i];
                while lo < hi && execs < budget_execs {
                    let mid = lo + (hi - lo) / 2;
                    let mut cand = best.clone();
                    if i >= cand.len() {
                        break;
                    }
                    cand[i] = mid;
                    if try_v(cand, &mut best, &mut execs) {
                        progress = true;
                        if i >= best.len() {
                            break;
                        }
                        hi = best[i].min(mid);
                    } else {
                        lo = mid + 1;
                    }
                }
            }
            i += 1;
        }
    }
    (best, execs)
}

// ------------------------------------------------------------------------------------------------
// replay files

pub fn write_replay(dir: &str, f: ScenarioFn, cfg: &Cfg, seed: u64, run: u64, choices: &[u64], original: &[u64], observed: &Violation, shrink_execs: u64) -> Result<(String, Violation), HarnessError> {
    // Re-execute with full logging.  If the code under test consults ambient state (a random
    // hasher, a clock) the minimised vector, or even the original one, may not fail again: the
    // violation was still observed, so it is reported, with the replay file marked accordingly.
    let sig = observed.sig();
    let mut chosen: Option<(Vec<u64>, RunOut)> = None;
    for (cand, tries) in [(choices, 3), (original, 25)] {
        for _ in 0..tries {
            let out = run_one(f, cfg, Choices::replaying(cand.to_vec()), true);
            if matches!(&out.result, Err(v) if v.sig() == sig) {
                chosen = Some((cand.to_vec(), out));
                break;
            }
        }
        if chosen.is_some() {
            break;
        }
    }
    std::fs::create_dir_all(dir).map_err(|e| HarnessError(format!("{dir}: {e}")))?;
    let path = format!("{dir}/{}-{}-{}-{}.json", cfg.prop, cfg.scenario, seed, run);
    let (vec, v, hash, lines, nondet) = match chosen {
        Some((vec, out)) => {
            let nondet = vec.len() == original.len() && vec != choices;
            let v = out.result.err().unwrap();
            (vec, v, out.hash, out.lines, nondet)
        }
        None => (original.to_vec(), observed.clone(), 0, vec!["(the violation was observed during the batch but did not recur in 28 re-executions of the same choice vector: the code under test is not a pure function of its inputs)".to_string()], true),
    };
    let doc = json!({
        "format": 1,
        "cfg": cfg.to_json(),
        "seed": seed,
        "run": run,
        "choices": vec,
        "original_choice_count": original.len(),
        "shrink_executions": shrink_execs,
        "violation": v.to_json(),
        "nondeterministic": nondet,
        "event_log_hash": format!("{:016x}", hash),
        "trace": lines,
    });
    std::fs::write(&path, serde_json::to_string_pretty(&doc).unwrap()).map_err(|e| HarnessError(format!("{path}: {e}")))?;
    Ok((path, v))
}
