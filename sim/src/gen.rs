//! Generators: credentials, addresses, message descriptions for the library builder (`MsgSpec`)
//! and for the foreign peer (`RefMsg`).  Everything is drawn from `Choices`; 0 = simplest.

use crate::choices::Choices;
use crate::refcodec::{RefCreds, RefItem, RefMsg, FP, MI, MI256};
use std::net::{IpAddr, Ipv4Addr, Ipv6Addr, SocketAddr};
use stun_types::attribute::*;
use stun_types::message::*;

// ------------------------------------------------------------------------------------------------
// credentials

#[derive(Clone, Debug, PartialEq, Eq)]
pub enum Creds {
    Short(String),
    Long { user: String, realm: String, password: String },
}

impl Creds {
    pub fn lib(&self) -> MessageIntegrityCredentials {
        match self {
            Creds::Short(p) => ShortTermCredentials::new(p.clone()).into(),
            Creds::Long { user, realm, password } => LongTermCredentials::new(user.clone(), password.clone(), realm.clone()).into(),
        }
    }
    pub fn reference(&self) -> RefCreds {
        match self {
            Creds::Short(p) => RefCreds::Short { password: p.clone() },
            Creds::Long { user, realm, password } => RefCreds::Long { user: user.clone(), realm: realm.clone(), password: password.clone() },
        }
    }
    pub fn short_desc(&self) -> String {
        match self {
            Creds::Short(p) => format!("short({p:?})"),
            Creds::Long { user, realm, password } => format!("long({user:?},{realm:?},{password:?})"),
        }
    }
}

const ALPHABET: &[char] = &['a', 'b', 'Z', '0', ':', ' ', 'é', 'ß', '中', '😀', '\u{0}', '/', 'p', '"', 'z', '\t'];

/// Characters that string-preparation profiles (SASLprep, PRECIS OpaqueString / UsernameCaseMapped)
/// map, fold or delete: non-ASCII spaces, soft hyphen, zero-width joiner, compatibility forms
/// (ligature, Angstrom sign, fullwidth letter), a combining accent, mixed with a few plain ones.  RFC
/// 8489 derives keys from the strings *as given* (the application prepares them); a key derivation
/// that normalises on its own identifies different keys.
const ALPHABET_PREP: &[char] = &['a', '\u{a0}', '\u{3000}', '\u{2003}', '\u{ad}', '\u{200d}', '\u{fb01}', '\u{212b}', '\u{ff21}', '\u{301}', 'e', ' ', 'A', 'k', '\u{c5}', ':'];

/// The string a normalising implementation would identify `s` with (None if `s` has nothing to normalise).
pub fn prep_twin(s: &str) -> Option<String> {
    let mut o = String::new();
    for c in s.chars() {
        match c {
            '\u{a0}' | '\u{3000}' | '\u{2000}'..='\u{200a}' | '\u{202f}' | '\u{205f}' | '\u{1680}' => o.push(' '),
            '\u{ad}' | '\u{200d}' | '\u{200c}' | '\u{200b}' => {}
            '\u{fb01}' => o.push_str("fi"),
            '\u{212b}' => o.push('\u{c5}'),
            '\u{ff21}' => o.push('A'),
            c => o.push(c),
        }
    }
    if o == s {
        None
    } else {
        Some(o)
    }
}

pub fn gen_string(ch: &mut Choices, max_chars: u64) -> String {
    // one string in twelve is long: sized around the boundaries text handling tends to have (HMAC
    // block 64, the 128-character / 513- and 763-byte limits of the text attributes, 255/256); the
    // alphabet mixes 1-, 2-, 3- and 4-byte characters, so byte offsets 64, 128, 256, 512 fall inside
    // a character in many of them
    let n = if ch.rare(1, 12) { *ch.pick(&[62u64, 64, 66, 90, 126, 128, 129, 200, 256, 509, 700, 763, 1100]) + ch.below(4) } else { ch.range(0, max_chars) };
    let alphabet = if ch.rare(1, 6) { ALPHABET_PREP } else { ALPHABET };
    let mut s = String::new();
    for _ in 0..n {
        s.push(*ch.pick(alphabet));
    }
    s
}

/// Exactly `len` bytes of valid UTF-8 mixing character widths (for the text-carrying attributes).
pub fn utf8_fill(ch: &mut Choices, len: usize) -> Vec<u8> {
    let mut s = String::with_capacity(len);
    // a run of 1-byte characters of drawn length first, so that multi-byte characters straddle
    // every residue of the round offsets
    let lead = (ch.below(5) as usize).min(len);
    for _ in 0..lead {
        s.push('a');
    }
    while s.len() < len {
        let c = *ch.pick(ALPHABET);
        if s.len() + c.len_utf8() <= len {
            s.push(c);
        } else {
            s.push('x');
        }
    }
    s.into_bytes()
}

pub fn gen_creds(ch: &mut Choices) -> Creds {
    if ch.rare(1, 3) {
        Creds::Long { user: gen_string(ch, 6), realm: gen_string(ch, 6), password: gen_string(ch, 8) }
    } else {
        Creds::Short(gen_string(ch, 8))
    }
}

/// HMAC zero-pads keys shorter than its block size, so keys that differ only in trailing NUL
/// bytes are the *same* HMAC key (RFC 2104); "another key" must differ beyond that.
pub fn same_hmac_key(a: &Creds, b: &Creds) -> bool {
    let norm = |c: &Creds| {
        let mut k = c.reference().key();
        while k.last() == Some(&0) {
            k.pop();
        }
        k
    };
    norm(a) == norm(b)
}

/// A credential that differs from `c` (guaranteed different key material by construction of the
/// returned description, checked by the caller where it matters).
pub fn gen_other_creds(ch: &mut Choices, c: &Creds) -> Creds {
    let k = ch.below(11);
    // "nearly the same" keys: what a normalising (trimming, unquoting, case-folding) key
    // derivation would wrongly identify with the original
    let near = |s: &str, k: u64| -> String {
        match k {
            6 => format!("\"{s}\""),
            7 => format!(" {s} "),
            8 => {
                if s.chars().any(|c| c.is_ascii_alphabetic()) {
                    s.chars().map(|c| if c.is_ascii_lowercase() { c.to_ascii_uppercase() } else { c.to_ascii_lowercase() }).collect()
                } else {
                    format!("{s}A")
                }
            }
            // what a string-preparing key derivation would identify it with
            10 => prep_twin(s).unwrap_or_else(|| format!("{s}\u{a0}")),
            _ => format!("{s}\""),
        }
    };
    let o = match (k, c) {
        (6..=10, Creds::Short(p)) => Creds::Short(near(p, k)),
        (6..=10, Creds::Long { user, realm, password }) => match ch.below(3) {
            0 => Creds::Long { user: user.clone(), realm: near(realm, k), password: password.clone() },
            1 => Creds::Long { user: near(user, k), realm: realm.clone(), password: password.clone() },
            _ => Creds::Long { user: user.clone(), realm: realm.clone(), password: near(password, k) },
        },
        // one character more
        (0, Creds::Short(p)) => Creds::Short(format!("{p}x")),
        (0, Creds::Long { user, realm, password }) => Creds::Long { user: user.clone(), realm: realm.clone(), password: format!("{password}x") },
        // same strings, other kind
        (1, Creds::Short(p)) => Creds::Long { user: String::new(), realm: String::new(), password: p.clone() },
        (1, Creds::Long { user, realm, password }) => {
            // the short-term credential whose text is the long-term key's *input*: MD5 of it is the
            // long-term key, the text itself the short-term key — two different keys
            if ch.coin() {
                Creds::Short(format!("{user}:{realm}:{password}"))
            } else {
                Creds::Short(password.clone())
            }
        }
        // empty
        (2, _) => Creds::Short(String::new()),
        // realm / user changed
        (3, Creds::Long { user, realm, password }) => Creds::Long { user: user.clone(), realm: format!("{realm}r"), password: password.clone() },
        // a short-term text of the shape user:realm:password has a long-term twin with the same text
        (3, Creds::Short(p)) if p.matches(':').count() >= 2 => {
            let mut it = p.splitn(3, ':');
            Creds::Long { user: it.next().unwrap().into(), realm: it.next().unwrap().into(), password: it.next().unwrap().into() }
        }
        (4, Creds::Long { user, realm, password }) => Creds::Long { user: format!("{user}u"), realm: realm.clone(), password: password.clone() },
        // user and realm shifted across the ':' separator (same concatenation!) is *not* a
        // different key under RFC 8489, so it is not generated here.
        _ => gen_creds(ch),
    };
    if same_hmac_key(&o, c) {
        // e.g. both empty: force a difference
        match o {
            Creds::Short(p) => Creds::Short(format!("{p}#")),
            Creds::Long { user, realm, password } => Creds::Long { user, realm, password: format!("{password}#") },
        }
    } else {
        o
    }
}

// ------------------------------------------------------------------------------------------------
// addresses

pub fn gen_addr(ch: &mut Choices) -> SocketAddr {
    let port = *ch.pick(&[3478u16, 1, 65535, 0, 5000, 5001]);
    if ch.rare(1, 8) {
        // IPv4-mapped IPv6: must stay distinct from the plain IPv4 address
        let d = ch.below(4) as u16 + 1;
        SocketAddr::new(IpAddr::V6(Ipv6Addr::new(0, 0, 0, 0, 0, 0xffff, 0xc000, 0x0200 | d)), port)
    } else if ch.rare(1, 12) {
        // link-local IPv6: the same address on two links (scope ids) is two different peers
        let scope = ch.below(3) as u32;
        SocketAddr::V6(std::net::SocketAddrV6::new(Ipv6Addr::new(0xfe80, 0, 0, 0, 0, 0, 0, 1), port, 0, scope))
    } else if ch.rare(1, 3) {
        let seg = ch.below(4) as u16;
        SocketAddr::new(IpAddr::V6(Ipv6Addr::new(0x2001, 0xdb8, 0, 0, 0, 0, seg, 1)), port)
    } else {
        let d = ch.below(4) as u8 + 1;
        SocketAddr::new(IpAddr::V4(Ipv4Addr::new(192, 0, 2, d)), port)
    }
}

/// A pool of n distinct addresses; the first two share an IP and differ in port.
pub fn gen_addr_pool(ch: &mut Choices, n: usize) -> Vec<SocketAddr> {
    let mut v: Vec<SocketAddr> = vec![];
    v.push(SocketAddr::new(IpAddr::V4(Ipv4Addr::new(192, 0, 2, 1)), 3478));
    v.push(SocketAddr::new(IpAddr::V4(Ipv4Addr::new(192, 0, 2, 1)), 3479));
    let mut guard = 0;
    while v.len() < n && guard < 100 + 10 * n {
        guard += 1;
        let a = gen_addr(ch);
        if !v.contains(&a) {
            v.push(a);
        }
    }
    v.truncate(n.max(1));
    v
}

// ------------------------------------------------------------------------------------------------
// messages for the library builder

#[derive(Clone, Debug, PartialEq)]
pub enum TAttr {
    Software(String),
    Username(String),
    Realm(String),
    Nonce(String),
    Priority(u32),
    UseCandidate,
    IceControlled(u64),
    IceControlling(u64),
    XorMapped(SocketAddr),
    AltServer(SocketAddr),
    AltDomain(String),
    ErrorCode(u16, String),
    Unknown(Vec<u16>),
    PwdAlg(bool),
    PwdAlgs(Vec<bool>),
    Userhash([u8; 32]),
    Raw(u16, Vec<u8>),
}

#[derive(Clone, Debug, PartialEq)]
pub enum Seal {
    Sha1(Creds),
    Sha256(Creds),
    Fp,
}

#[derive(Clone, Debug, PartialEq)]
pub struct MsgSpec {
    pub class: u8,
    pub method: u16,
    pub tid: u128,
    pub attrs: Vec<TAttr>,
    pub seals: Vec<Seal>,
}

pub fn lib_class(c: u8) -> MessageClass {
    match c & 3 {
        0 => MessageClass::Request,
        1 => MessageClass::Indication,
        2 => MessageClass::Success,
        _ => MessageClass::Error,
    }
}

fn pav(b: bool) -> PasswordAlgorithmValue {
    if b {
        PasswordAlgorithmValue::SHA256
    } else {
        PasswordAlgorithmValue::MD5
    }
}

impl TAttr {
    /// Build the typed library attribute; None when the library's constructor refuses the value.
    fn make(&self, tid: TransactionId) -> Option<Box<dyn AttributeWrite>> {
        Some(match self {
            TAttr::Software(s) => Box::new(Software::new(s).ok()?),
            TAttr::Username(s) => Box::new(Username::new(s).ok()?),
            TAttr::Realm(s) => Box::new(Realm::new(s).ok()?),
            TAttr::Nonce(s) => Box::new(Nonce::new(s).ok()?),
            TAttr::Priority(p) => Box::new(Priority::new(*p)),
            TAttr::UseCandidate => Box::new(UseCandidate::new()),
            TAttr::IceControlled(t) => Box::new(IceControlled::new(*t)),
            TAttr::IceControlling(t) => Box::new(IceControlling::new(*t)),
            TAttr::XorMapped(a) => Box::new(XorMappedAddress::new(*a, tid)),
            TAttr::AltServer(a) => Box::new(AlternateServer::new(*a)),
            TAttr::AltDomain(s) => Box::new(AlternateDomain::new(s)),
            TAttr::ErrorCode(c, r) => Box::new(ErrorCode::new(*c, r).ok()?),
            TAttr::Unknown(v) => Box::new(UnknownAttributes::new(&v.iter().map(|&x| AttributeType::new(x)).collect::<Vec<_>>())),
            TAttr::PwdAlg(b) => Box::new(PasswordAlgorithm::new(pav(*b))),
            TAttr::PwdAlgs(v) => Box::new(PasswordAlgorithms::new(&v.iter().map(|&b| pav(b)).collect::<Vec<_>>())),
            TAttr::Userhash(h) => Box::new(Userhash::new(*h)),
            TAttr::Raw(_, _) => return None,
        })
    }
}

impl MsgSpec {
    pub fn lib_type(&self) -> MessageType {
        MessageType::from_class_method(lib_class(self.class), self.method & 0xfff)
    }
    /// Build the library `MessageBuilder` for this description and hand it to `f`.
    /// Attributes the builder refuses (duplicates, out-of-limit values) are skipped.
    pub fn with_builder<R>(&self, f: impl FnOnce(MessageBuilder<'_>) -> R) -> R {
        let tid: TransactionId = self.tid.into();
        let store: Vec<Option<Box<dyn AttributeWrite>>> = self.attrs.iter().map(|a| a.make(tid)).collect();
        let mut b = Message::builder(self.lib_type(), tid);
        // one description in five (decided by its content) is assembled by an application that also
        // attempts operations the builder refuses — a second attribute of a type already present, an
        // attribute after the seal, a second fingerprint.  A refused operation must leave no trace in
        // what is serialised, sealed and fingerprinted afterwards.
        let noisy = (self.tid as u64).wrapping_add(self.attrs.len() as u64 * 3).wrapping_add(self.seals.len() as u64) % 5 == 0;
        let noise_val = [0x5au8; 7];
        for (i, (a, s)) in self.attrs.iter().zip(store.iter()).enumerate() {
            if noisy && i == 1 {
                // an application that looks at the size / bytes of the message while assembling it
                let _ = b.byte_len();
                let _ = b.build();
            }
            match (a, s) {
                (TAttr::Raw(ty, v), _) => {
                    if *ty == MI || *ty == MI256 || *ty == FP {
                        continue;
                    }
                    let _ = b.add_raw_attribute(RawAttribute::new(AttributeType::new(*ty), v));
                }
                (_, Some(boxed)) => {
                    let _ = b.add_attribute(boxed.as_ref());
                }
                _ => {}
            }
        }
        if noisy {
            // repeats of types already present: refused (AttributeExists)
            for (a, s) in self.attrs.iter().zip(store.iter()).take(2) {
                match (a, s) {
                    (TAttr::Raw(ty, _), _) if *ty != MI && *ty != MI256 && *ty != FP => {
                        if b.has_attribute(AttributeType::new(*ty)) {
                            let _ = b.add_raw_attribute(RawAttribute::new(AttributeType::new(*ty), &noise_val));
                        }
                    }
                    (_, Some(boxed)) => {
                        if b.has_attribute(boxed.get_type()) {
                            let _ = b.add_attribute(boxed.as_ref());
                        }
                    }
                    _ => {}
                }
            }
        }
        for s in &self.seals {
            let sealed = match s {
                Seal::Sha1(c) => b.add_message_integrity(&c.lib(), IntegrityAlgorithm::Sha1).is_ok(),
                Seal::Sha256(c) => b.add_message_integrity(&c.lib(), IntegrityAlgorithm::Sha256).is_ok(),
                Seal::Fp => b.add_fingerprint().is_ok(),
            };
            // (only behind a seal the builder really added: one it declined leaves the message open)
            if noisy && sealed {
                // after a seal: an ordinary attribute is refused; so is a second fingerprint
                let _ = b.add_raw_attribute(RawAttribute::new(AttributeType::new(0x7f01), &noise_val));
                if matches!(s, Seal::Fp) {
                    let _ = b.add_fingerprint();
                }
            }
        }
        f(b)
    }
    pub fn build(&self) -> Vec<u8> {
        self.with_builder(|b| b.build())
    }
    /// What the application put into the message, as far as it can be stated without an encoder of
    /// its own: the attribute types in order (those the builder accepted — it reports each `add`),
    /// with the exact value bytes for raw attributes; then the seals' types.
    pub fn handed_in(&self) -> Vec<(u16, Option<Vec<u8>>)> {
        let tid: TransactionId = self.tid.into();
        let store: Vec<Option<Box<dyn AttributeWrite>>> = self.attrs.iter().map(|a| a.make(tid)).collect();
        let mut b = Message::builder(self.lib_type(), tid);
        let mut out = vec![];
        for (a, s) in self.attrs.iter().zip(store.iter()) {
            match (a, s) {
                (TAttr::Raw(ty, v), _) => {
                    if *ty == MI || *ty == MI256 || *ty == FP {
                        continue;
                    }
                    if b.add_raw_attribute(RawAttribute::new(AttributeType::new(*ty), v)).is_ok() {
                        out.push((*ty, Some(v.clone())));
                    }
                }
                (_, Some(boxed)) => {
                    if b.add_attribute(boxed.as_ref()).is_ok() {
                        out.push((tattr_type(a), None));
                    }
                }
                _ => {}
            }
        }
        for s in &self.seals {
            match s {
                Seal::Sha1(c) => {
                    if b.add_message_integrity(&c.lib(), IntegrityAlgorithm::Sha1).is_ok() {
                        out.push((MI, None));
                    }
                }
                Seal::Sha256(c) => {
                    if b.add_message_integrity(&c.lib(), IntegrityAlgorithm::Sha256).is_ok() {
                        out.push((MI256, None));
                    }
                }
                Seal::Fp => {
                    if b.add_fingerprint().is_ok() {
                        out.push((FP, None));
                    }
                }
            }
        }
        out
    }
    pub fn signed(&self) -> bool {
        self.seals.iter().any(|s| matches!(s, Seal::Sha1(_) | Seal::Sha256(_)))
    }
    pub fn desc(&self) -> String {
        let seals: Vec<String> = self
            .seals
            .iter()
            .map(|s| match s {
                Seal::Sha1(c) => format!("MI[{}]", c.short_desc()),
                Seal::Sha256(c) => format!("MI256[{}]", c.short_desc()),
                Seal::Fp => "FP".into(),
            })
            .collect();
        let attrs: Vec<String> = self
            .attrs
            .iter()
            .map(|a| match a {
                TAttr::Raw(t, v) => format!("Raw({t:#06x},{}B)", v.len()),
                o => {
                    let s = format!("{o:?}");
                    if s.len() > 40 {
                        format!("{}…", s.chars().take(40).collect::<String>())
                    } else {
                        s
                    }
                }
            })
            .collect();
        format!("class={} method={:#x} tid={:#x} attrs=[{}] seals=[{}]", self.class, self.method, self.tid, attrs.join(","), seals.join(","))
    }
}

pub struct SpecOpts {
    pub max_attrs: u64,
    /// allow a large raw attribute (up to this many bytes); 0 = no
    pub big: usize,
}

pub fn gen_tid(ch: &mut Choices) -> u128 {
    // small ids most of the time (readable traces, frequent ties in ordered maps), sometimes full width
    if ch.rare(1, 4) {
        let hi = ch.u64_any() as u128;
        let lo = ch.u64_any() as u128;
        ((hi << 64) | lo) & ((1u128 << 96) - 1)
    } else if ch.rare(1, 6) {
        // ids that agree in some 32-bit words and differ in one (top, middle or low word): whoever
        // compares or hashes only part of an id confuses them
        let small = ch.range(1, 3) as u128;
        let word = ch.range(1, 2) as u128;
        match ch.below(3) {
            0 => (word << 64) | small,
            1 => (word << 32) | small,
            _ => (0xffff_ffffu128 << 64) | (word << 32) | small,
        }
    } else {
        ch.range(1, 9) as u128
    }
}

/// Attribute types that are registered with IANA (TURN, ICE, NAT discovery, RFC 7982, …) but that
/// this library does not implement: a peer may legally send them and the library must treat them
/// as opaque, with the lengths those specifications give them.
pub const REGISTERED_UNIMPLEMENTED: &[(u16, &[usize])] = &[
    (0x0003, &[4]),      // CHANGE-REQUEST
    (0x000C, &[4]),      // CHANNEL-NUMBER
    (0x000D, &[4]),      // LIFETIME
    (0x0012, &[8, 20]),  // XOR-PEER-ADDRESS
    (0x0013, &[0, 1, 36, 100]), // DATA
    (0x0016, &[8, 20]),  // XOR-RELAYED-ADDRESS
    (0x0017, &[4]),      // REQUESTED-ADDRESS-FAMILY
    (0x0018, &[1]),      // EVEN-PORT
    (0x0019, &[4]),      // REQUESTED-TRANSPORT
    (0x001A, &[0]),      // DONT-FRAGMENT
    (0x0022, &[8]),      // RESERVATION-TOKEN
    (0x0026, &[0, 7, 64]), // PADDING
    (0x0027, &[4]),      // RESPONSE-PORT
    (0x002A, &[4]),      // CONNECTION-ID
    (0x8025, &[4]),      // TRANSACTION-TRANSMIT-COUNTER (RFC 7982)
    (0x8027, &[4]),      // CACHE-TIMEOUT
    (0x802B, &[8, 20]),  // RESPONSE-ORIGIN
    (0x802C, &[8, 20]),  // OTHER-ADDRESS
    (0x802D, &[4]),      // ECN-CHECK
    (0xC001, &[4]),      // experimental range
    (0xC057, &[4]),      // GOOG-NETWORK-INFO
];

/// A complete, well-formed STUN message to be carried as the *payload* of another attribute (what a
/// TURN Send/Data indication does with an ICE connectivity check): signed and/or fingerprinted, so
/// that the outer message contains serialised integrity and fingerprint attributes that are not its
/// own.
pub fn embedded_message(ch: &mut Choices) -> Vec<u8> {
    let c = Creds::Short("embedded".into());
    let variant = ch.range(1, 7);
    let attrs = if ch.coin() { vec![TAttr::Priority(7), TAttr::UseCandidate] } else { vec![] };
    MsgSpec { class: ch.below(4) as u8, method: 1, tid: gen_tid(ch), attrs, seals: seals_of(variant, &c) }.build()
}

/// A 64-bit value that, some of the time, spells an attribute header when it ends a message.
pub fn confusable_u64(ch: &mut Choices) -> u64 {
    if ch.rare(1, 4) {
        let hi: u64 = *ch.pick(&[0x8028_0004u64, 0x0008_0014, 0x001c_0020]);
        (hi << 32) | ch.below(1 << 32)
    } else {
        ch.u64_any()
    }
}

/// A library-built message sized to the very end of the 16-bit length range (one big raw
/// attribute plus the seals of `variant`).
pub fn gen_big_spec(ch: &mut Choices, creds: &Creds, variant: u64) -> MsgSpec {
    let seal_bytes: usize = seals_of(variant, creds).iter().map(|s| match s { Seal::Sha1(_) => 24, Seal::Sha256(_) => 36, Seal::Fp => 8 }).sum();
    let max = 65_532 - 4 - seal_bytes;
    let delta = *ch.pick(&[0usize, 1, 2, 3, 4, 8, 12, 16, 20, 24, 28, 32, 36, 40, 44, 64, 100, 5000]);
    let l = max - delta;
    MsgSpec { class: ch.below(4) as u8, method: *ch.pick(&[1u16, 0, 0xfff, 3]), tid: gen_tid(ch), attrs: vec![TAttr::Raw(0x7f01, ch.bytes(l))], seals: seals_of(variant, creds) }
}

pub fn gen_tattr(ch: &mut Choices, pool: &[SocketAddr], big: usize) -> TAttr {
    let k = ch.below(18);
    match k {
        0 => TAttr::Software(gen_string(ch, 12)),
        1 => TAttr::Priority(ch.below(1 << 32) as u32),
        2 => TAttr::Username(gen_string(ch, 10)),
        3 => TAttr::UseCandidate,
        4 => TAttr::IceControlled(confusable_u64(ch)),
        5 => TAttr::IceControlling(confusable_u64(ch)),
        6 => TAttr::XorMapped(*ch.pick(pool)),
        7 => TAttr::AltServer(*ch.pick(pool)),
        8 => TAttr::AltDomain(gen_string(ch, 10)),
        9 => TAttr::ErrorCode(*ch.pick(&[400u16, 300, 401, 420, 438, 500, 699]), gen_string(ch, 8)),
        10 => {
            let n = ch.below(4);
            TAttr::Unknown((0..n).map(|_| ch.below(1 << 16) as u16).collect())
        }
        11 => TAttr::PwdAlg(ch.coin()),
        12 => {
            let n = ch.range(1, 3);
            TAttr::PwdAlgs((0..n).map(|_| ch.coin()).collect())
        }
        13 => {
            let b = ch.bytes(32);
            let mut h = [0u8; 32];
            h.copy_from_slice(&b);
            TAttr::Userhash(h)
        }
        14 => TAttr::Realm(gen_string(ch, 10)),
        15 => TAttr::Nonce(gen_string(ch, 10)),
        _ => {
            // raw: unknown type (both comprehension classes), lengths around padding residues
            if ch.rare(1, 5) {
                // a registered attribute this library does not implement, with its specified length
                let (ty, lens) = REGISTERED_UNIMPLEMENTED[ch.below(REGISTERED_UNIMPLEMENTED.len() as u64) as usize];
                if ty == 0x0013 && ch.coin() {
                    return TAttr::Raw(ty, embedded_message(ch));
                }
                let len = *ch.pick(lens);
                return TAttr::Raw(ty, ch.bytes(len));
            }
            let ty = *ch.pick(&[0x7f00u16, 0xff00, 0x0030, 0xc001, 0x0002, 0x8000, 0x7fff]);
            let len = if big > 0 && ch.rare(1, 6) {
                let edges = [big as u64, big as u64 - 1, big as u64 - 3, 763, 764, 513, 255, 256];
                ch.edgy(0, big as u64, &edges) as usize
            } else if ch.rare(1, 10) {
                // medium sizes: around scratch-buffer and MTU sized thresholds, every padding residue
                *ch.pick(&[255usize, 256, 508, 512, 1020, 1024, 1200, 1468, 2048, 4092, 4096]) + ch.below(8) as usize
            } else {
                ch.below(9) as usize
            };
            TAttr::Raw(ty, ch.bytes(len))
        }
    }
}

fn tattr_type(a: &TAttr) -> u16 {
    match a {
        TAttr::Software(_) => 0x8022,
        TAttr::Username(_) => 0x0006,
        TAttr::Realm(_) => 0x0014,
        TAttr::Nonce(_) => 0x0015,
        TAttr::Priority(_) => 0x0024,
        TAttr::UseCandidate => 0x0025,
        TAttr::IceControlled(_) => 0x8029,
        TAttr::IceControlling(_) => 0x802A,
        TAttr::XorMapped(_) => 0x0020,
        TAttr::AltServer(_) => 0x8023,
        TAttr::AltDomain(_) => 0x8003,
        TAttr::ErrorCode(_, _) => 0x0009,
        TAttr::Unknown(_) => 0x000A,
        TAttr::PwdAlg(_) => 0x001D,
        TAttr::PwdAlgs(_) => 0x8002,
        TAttr::Userhash(_) => 0x001E,
        TAttr::Raw(t, _) => *t,
    }
}

/// Unique-typed attribute list (the builder refuses duplicates anyway).
pub fn gen_attrs(ch: &mut Choices, pool: &[SocketAddr], o: &SpecOpts) -> Vec<TAttr> {
    if o.max_attrs >= 4 && o.big == 0 && ch.rare(1, 40) {
        // a message with very many small attributes (distinct types: the builder refuses repeats):
        // 31..34, 63..66, 127..130 or 255..258 of them, then possibly one known one at the very end
        let n = *ch.pick(&[31u64, 63, 127, 255]) + ch.below(4);
        let mut v: Vec<TAttr> = (0..n).map(|i| TAttr::Raw(if i % 2 == 0 { 0x7100 } else { 0xf100 } + i as u16, ch.bytes((i % 5) as usize))).collect();
        if ch.coin() {
            v.push(TAttr::Software("last".into()));
        }
        return v;
    }
    let n = ch.range(0, o.max_attrs);
    let mut v: Vec<TAttr> = vec![];
    for _ in 0..n {
        let a = gen_tattr(ch, pool, o.big);
        if !v.iter().any(|x| tattr_type(x) == tattr_type(&a)) {
            v.push(a);
        }
    }
    v
}

/// sealing variant index: 0 none, 1 FP, 2 SHA1, 3 SHA256, 4 SHA1+FP, 5 SHA256+FP, 6 both, 7 both+FP
pub fn seals_of(variant: u64, c: &Creds) -> Vec<Seal> {
    match variant {
        0 => vec![],
        1 => vec![Seal::Fp],
        2 => vec![Seal::Sha1(c.clone())],
        3 => vec![Seal::Sha256(c.clone())],
        4 => vec![Seal::Sha1(c.clone()), Seal::Fp],
        5 => vec![Seal::Sha256(c.clone()), Seal::Fp],
        6 => vec![Seal::Sha1(c.clone()), Seal::Sha256(c.clone())],
        _ => vec![Seal::Sha1(c.clone()), Seal::Sha256(c.clone()), Seal::Fp],
    }
}

// ------------------------------------------------------------------------------------------------
// foreign peer

/// Known attribute types with the value lengths their decoders accept (for length-biased
/// generation of raw values by the foreign peer and the splicer).
pub const KNOWN_TYPES: &[(u16, &[usize])] = &[
    (0x0001, &[8, 20]),
    (0x0006, &[0, 5, 64, 128, 256, 513]),
    (0x0008, &[20]),
    (0x0009, &[4, 10, 68, 132, 260, 767]),
    (0x000A, &[0, 2, 4]),
    (0x0014, &[0, 5, 64, 128, 256, 763]),
    (0x0015, &[0, 5, 64, 128, 256, 763]),
    (0x001C, &[16, 20, 32]),
    (0x001D, &[4]),
    (0x001E, &[32]),
    (0x0020, &[8, 20]),
    (0x0024, &[4]),
    (0x0025, &[0]),
    (0x8002, &[4, 8, 12, 16]),
    (0x8003, &[0, 5]),
    (0x8022, &[0, 5, 64, 128, 256, 763]),
    (0x8023, &[8, 20]),
    (0x8028, &[4]),
    (0x8029, &[8]),
    (0x802A, &[8]),
];

pub fn gen_raw_value(ch: &mut Choices, ty: u16) -> Vec<u8> {
    let lens: &[usize] = KNOWN_TYPES.iter().find(|(t, _)| *t == ty).map(|(_, l)| *l).unwrap_or(&[0, 1, 4]);
    let base = *ch.pick(lens) as i64;
    let delta = *ch.pick(&[0i64, 0, 0, -1, 1, 2, 3, -4, 4]);
    let len = (base + delta).clamp(0, 800) as usize;
    let mut v = ch.bytes(len);
    // make address-like values plausible some of the time
    if (ty == 0x0001 || ty == 0x0020 || ty == 0x8023) && len >= 2 && ch.coin() {
        v[0] = 0;
        v[1] = if len >= 20 { 2 } else { 1 };
    }
    if ty == 0x0009 && len >= 4 && ch.coin() {
        v[0] = 0;
        v[1] = 0;
        v[2] = ch.range(3, 6) as u8;
        v[3] = ch.below(100) as u8;
        if ch.coin() {
            let t = utf8_fill(ch, len - 4);
            v[4..].copy_from_slice(&t);
        } else {
            for b in v[4..].iter_mut() {
                *b = b'a' + (*b % 26);
            }
        }
    }
    if (ty == 0x001D || ty == 0x8002) && len >= 4 && ch.rare(1, 4) {
        // nested (algorithm, parameter length, parameters) entries with unknown algorithm numbers and
        // parameter lengths from the edges of the 16-bit range: the claimed length matters, not the
        // bytes actually present
        for c in v.chunks_mut(4) {
            if c.len() == 4 {
                let alg = *ch.pick(&[1u16, 2, 3, 0, 0xffff, 0x0100]);
                let pl = *ch.pick(&[0u16, 0, 1, 3, 4, 5, 0x7fff, 0x8000, 0xfff8, 0xfff9, 0xfffa, 0xfffb, 0xfffc, 0xfffd, 0xfffe, 0xffff]);
                c[0..2].copy_from_slice(&alg.to_be_bytes());
                c[2..4].copy_from_slice(&pl.to_be_bytes());
            }
        }
    } else if (ty == 0x001D || ty == 0x8002) && len >= 4 && ch.coin() {
        for c in v.chunks_mut(4) {
            if c.len() == 4 {
                c[0] = 0;
                c[1] = 1 + (c[1] & 1);
                c[2] = 0;
                c[3] = 0;
            }
        }
    }
    if len >= 8 && ch.rare(1, 6) {
        // payload whose tail looks like an attribute header (FINGERPRINT / integrity)
        let pat: [u8; 4] = *ch.pick(&[[0x80, 0x28, 0x00, 0x04], [0x00, 0x08, 0x00, 0x14], [0x00, 0x1c, 0x00, 0x20]]);
        let at = len - 8;
        v[at..at + 4].copy_from_slice(&pat);
    }
    if ty == 0x0015 && ch.rare(1, 4) {
        // the RFC 8489 nonce cookie "obMatJos2" followed by 0..6 further characters (the security
        // feature bits are the next four base64 characters — when they are there)
        let mut t = "obMatJos2".to_string();
        for _ in 0..ch.below(7) {
            t.push(*ch.pick(&['A', 'a', '/', 'é', '中', '=']));
        }
        v = t.into_bytes();
    } else if matches!(ty, 0x0006 | 0x0014 | 0x0015 | 0x8022 | 0x8003) && ch.coin() {
        if ch.coin() {
            v = utf8_fill(ch, len);
        } else {
            for b in v.iter_mut() {
                *b = b'a' + (*b % 26);
            }
        }
    }
    v
}

pub fn gen_foreign_attr(ch: &mut Choices) -> RefItem {
    if ch.rare(1, 8) {
        let (ty, lens) = REGISTERED_UNIMPLEMENTED[ch.below(REGISTERED_UNIMPLEMENTED.len() as u64) as usize];
        let value = if ty == 0x0013 && ch.coin() { embedded_message(ch) } else { let l = *ch.pick(lens); ch.bytes(l) };
        return RefItem::Attr { ty, value, pad: 0 };
    }
    let ty = if ch.rare(1, 4) {
        *ch.pick(&[0x7f00u16, 0xff00, 0x0030, 0xc001, 0x0000, 0xffff])
    } else {
        let cands: Vec<u16> = KNOWN_TYPES.iter().map(|(t, _)| *t).filter(|t| *t != MI && *t != MI256 && *t != FP).collect();
        *ch.pick(&cands)
    };
    let value = gen_raw_value(ch, ty);
    let pad = if ch.rare(1, 4) { ch.range(1, 255) as u8 } else { 0 };
    RefItem::Attr { ty, value, pad }
}

/// A well-formed message from the foreign peer: ordinary attributes (repeats allowed: the RFC
/// does not forbid them and the parser must return the first), then one of the legal tails.
pub fn gen_foreign(ch: &mut Choices, creds: &Creds, max_attrs: u64) -> RefMsg {
    let class = ch.below(4) as u8;
    let method = if ch.rare(1, 5) { ch.below(0x1000) as u16 } else { *ch.pick(&[1u16, 0, 0xfff, 3, 0x080, 0x555, 0x00b, 0x00c, 0x00d]) };
    let mut m = RefMsg::new(class, method, gen_tid(ch));
    let many = max_attrs >= 4 && ch.rare(1, 40);
    let n = if many { *ch.pick(&[32u64, 33, 64, 65, 128, 300]) } else { ch.range(0, max_attrs) };
    for i in 0..n {
        if many && i + 1 < n {
            // very many *small* attributes (repeats allowed); the last one is an ordinary drawn one
            let ty = *ch.pick(&[0x7f00u16, 0xff00, 0x0030, 0x8022, 0x0025, 0xc001]);
            let l = ch.below(6) as usize;
            m.items.push(RefItem::Attr { ty, value: ch.bytes(l), pad: 0 });
        } else {
            m.items.push(gen_foreign_attr(ch));
        }
    }
    // a repeated type with a freshly drawn value (the first copy may be undecodable where the second
    // is fine, or the other way round): lookups, typed ones included, must answer with the first
    if !many && !m.items.is_empty() && ch.rare(1, 6) {
        let k = ch.below(m.items.len() as u64) as usize;
        if let RefItem::Attr { ty, .. } = &m.items[k] {
            let ty = *ty;
            let value = if ch.coin() { gen_raw_value(ch, ty) } else { let lens: &[usize] = KNOWN_TYPES.iter().find(|(t, _)| *t == ty).map(|(_, l)| *l).unwrap_or(&[0, 1, 4]); let l = *ch.pick(lens); if matches!(ty, 0x0006 | 0x0014 | 0x0015 | 0x8022 | 0x8003) { utf8_fill(ch, l) } else { ch.bytes(l) } };
            let at = k + 1 + ch.below((m.items.len() - k) as u64) as usize;
            m.items.insert(at, RefItem::Attr { ty, value, pad: 0 });
        }
    }
    let rc = creds.reference();
    // legal tails: [], [FP], [MI], [MI256], [MI,FP], [MI256,FP], [MI,MI256], [MI256,MI], [MI,MI256,FP], [MI256,MI,FP]
    let tail = ch.below(10);
    let l256 = |ch: &mut Choices| *ch.pick(&[32usize, 16, 20, 24, 28]);
    match tail {
        0 => {}
        1 => m.items.push(RefItem::Fp { flip: None }),
        2 => m.items.push(RefItem::Mac1 { creds: rc.clone(), flip: None }),
        3 => {
            let l = l256(ch);
            m.items.push(RefItem::Mac256 { creds: rc.clone(), len: l, flip: None })
        }
        4 => {
            m.items.push(RefItem::Mac1 { creds: rc.clone(), flip: None });
            m.items.push(RefItem::Fp { flip: None });
        }
        5 => {
            let l = l256(ch);
            m.items.push(RefItem::Mac256 { creds: rc.clone(), len: l, flip: None });
            m.items.push(RefItem::Fp { flip: None });
        }
        6 => {
            let l = l256(ch);
            m.items.push(RefItem::Mac1 { creds: rc.clone(), flip: None });
            m.items.push(RefItem::Mac256 { creds: rc.clone(), len: l, flip: None });
        }
        7 => {
            let l = l256(ch);
            m.items.push(RefItem::Mac256 { creds: rc.clone(), len: l, flip: None });
            m.items.push(RefItem::Mac1 { creds: rc.clone(), flip: None });
        }
        8 => {
            let l = l256(ch);
            m.items.push(RefItem::Mac1 { creds: rc.clone(), flip: None });
            m.items.push(RefItem::Mac256 { creds: rc.clone(), len: l, flip: None });
            m.items.push(RefItem::Fp { flip: None });
        }
        _ => {
            let l = l256(ch);
            m.items.push(RefItem::Mac256 { creds: rc.clone(), len: l, flip: None });
            m.items.push(RefItem::Mac1 { creds: rc.clone(), flip: None });
            m.items.push(RefItem::Fp { flip: None });
        }
    }
    m
}

pub fn hex(b: &[u8]) -> String {
    let mut s = String::with_capacity(b.len() * 2);
    for x in b.iter().take(96) {
        s.push_str(&format!("{x:02x}"));
    }
    if b.len() > 96 {
        s.push_str(&format!("…({}B)", b.len()));
    }
    s
}
