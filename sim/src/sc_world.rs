//! Scenario `world` (DESIGN.md §3.3–§3.6): 1–3 client nodes (real `StunAgent`s, each checked against
//! its own transaction model), a server node modelled on `stun-proto/examples/stund.rs` (real code
//! throughout), an on-path attacker, UDP datagram links and RFC 4571-framed TCP streams (real
//! `TcpBuffer` on both ends), all driven by one discrete-event queue with a simulated clock.
//! Faults: drop, duplicate, delay/reorder, corrupt, truncate, coalesce, NAT rewrite, partition/heal,
//! segmentation, stream stall, connection cut, forged/replayed responses, client stalls.
//! Faults stop at a drawn quiescence time; after it every transaction must complete by its
//! model deadline (bounded liveness).  Serves C05, C06, C07, C15, C18 end to end.

use crate::agentapi::*;
use crate::core::{guard, short_loc, Ctx, Guarded, ScResult, Violation};
use crate::ev;
use crate::gen::*;
use crate::model_tx::{PollOutcome, Status};
use crate::refcodec::{self, Verdict};
use crate::sc_agent::AgentSim;
use std::collections::BinaryHeap;
use std::net::{IpAddr, Ipv4Addr, SocketAddr};
use stun_proto::agent::{HandleStunReply, StunAgent, TcpBuffer};
use stun_types::attribute::*;
use stun_types::message::*;

const MS: u64 = 1_000_000;
const SEC: u64 = 1_000_000_000;

#[derive(Debug)]
enum Ev {
    Wake(usize),
    App(usize),
    /// datagram arriving at a client
    ToClient { c: usize, bytes: Vec<u8>, from: SocketAddr },
    /// datagram arriving at the server
    ToServer { bytes: Vec<u8>, from: SocketAddr, reply_to: usize },
    /// stream segment arriving at the server side of client c's connection
    SegToServer { c: usize, bytes: Vec<u8> },
    SegToClient { c: usize, bytes: Vec<u8> },
    Attack,
    PartitionStart,
    PartitionEnd,
}

struct Item {
    at: u64,
    seq: u64,
    ev: Ev,
}
impl PartialEq for Item {
    fn eq(&self, o: &Self) -> bool {
        self.at == o.at && self.seq == o.seq
    }
}
impl Eq for Item {}
impl PartialOrd for Item {
    fn partial_cmp(&self, o: &Self) -> Option<std::cmp::Ordering> {
        Some(self.cmp(o))
    }
}
impl Ord for Item {
    fn cmp(&self, o: &Self) -> std::cmp::Ordering {
        // min-heap on (at, seq)
        (o.at, o.seq).cmp(&(self.at, self.seq))
    }
}

struct Net {
    q: BinaryHeap<Item>,
    seq: u64,
    now: u64,
    faults_until: u64,
    partitioned: bool,
    drop_p: u64,
    dup_p: u64,
    corrupt_p: u64,
    trunc_p: u64,
    coalesce_p: u64,
    nat_p: u64,
    hostile: bool,
    base_latency: u64,
    jitter: u64,
}

impl Net {
    fn push(&mut self, at: u64, ev: Ev) {
        self.seq += 1;
        self.q.push(Item { at: at.max(self.now), seq: self.seq, ev });
    }
    fn faults_on(&self) -> bool {
        self.now < self.faults_until
    }
}

struct Client {
    sim: AgentSim,
    tcp: bool,
    addr: SocketAddr,
    /// how the server sees this client (NAT)
    mapped: SocketAddr,
    // TCP: the two directions of the connection
    rx: TcpBuffer,
    rx_hdr: Vec<u8>,
    conn_cut: bool,
    late_policy: u64,
    stall_until: u64,
    header_delimited: bool,
    scheduled: std::collections::BTreeSet<u64>,
}

struct Server {
    addr: SocketAddr,
    udp: StunAgent,
    tcp: Vec<(StunAgent, TcpBuffer, Vec<u8>)>,
    creds: Creds,
    handled: u64,
    udp_ledger: Ledger,
    tcp_ledgers: Vec<Ledger>,
}

fn g<T>(prop: &str, site: &'static str, f: impl FnOnce() -> T) -> Result<T, Violation> {
    match guard(f) {
        Guarded::Ok(v) => Ok(v),
        Guarded::Panicked(m, l) => Err(Violation::new(prop, "panic", site, format!("{site} panicked: {m} at {}", short_loc(&l)))),
    }
}

/// What one delivery to the server produced, for the server-side ledger.
#[derive(Default)]
struct SrvOut {
    /// bytes to put on the wire, if the server answers
    resp: Option<Vec<u8>>,
    /// 0 not parsed, 1 Drop, 2 StunResponse, 3 IncomingStun
    reply_kind: u8,
    /// when the answer went through the server agent's `send`: what `build()` gave before the
    /// builder was handed over, and the transmission that came back (data, from, to, tcp), or the error
    sent: Option<(Vec<u8>, Result<(Vec<u8>, SocketAddr, SocketAddr, bool), String>)>,
}

fn srv_send(agent: &mut StunAgent, b: MessageBuilder<'_>, to: SocketAddr, via_send: Option<std::time::Instant>, out: &mut SrvOut) {
    match via_send {
        // as stund.rs does for TCP: through the server agent's send()
        Some(now) => {
            let built = b.build();
            match agent.send(b, to, now) {
                Ok(t) => {
                    let d = t.data().to_vec();
                    out.sent = Some((built, Ok((d.clone(), t.from, t.to, t.transport == stun_types::TransportType::Tcp))));
                    out.resp = Some(d);
                }
                Err(e) => out.sent = Some((built, Err(format!("{e:?}")))),
            }
        }
        None => out.resp = Some(b.build()),
    }
}

/// The server's request handling, real library code throughout (modelled on stund.rs).
fn server_handle(agent: &mut StunAgent, data: &[u8], from: SocketAddr, creds: &Creds, via_send: Option<std::time::Instant>) -> SrvOut {
    let mut out = SrvOut::default();
    let Ok(msg) = Message::from_bytes(data) else { return out };
    match agent.handle_stun(msg, from) {
        HandleStunReply::Drop => out.reply_kind = 1,
        HandleStunReply::StunResponse(_) => out.reply_kind = 2,
        HandleStunReply::IncomingStun(msg) => {
            out.reply_kind = 3;
            if !msg.has_class(MessageClass::Request) {
                return out;
            }
            let supported = [
                Fingerprint::TYPE,
                MessageIntegrity::TYPE,
                MessageIntegritySha256::TYPE,
                Username::TYPE,
                Realm::TYPE,
                Nonce::TYPE,
                Priority::TYPE,
                UseCandidate::TYPE,
                XorMappedAddress::TYPE,
                ErrorCode::TYPE,
                UnknownAttributes::TYPE,
                PasswordAlgorithm::TYPE,
                Userhash::TYPE,
            ];
            if let Some(err) = Message::check_attribute_types(&msg, &supported, &[]) {
                srv_send(agent, err, from, via_send, &mut out);
                return out;
            }
            let mut resp = Message::builder_success(&msg);
            let xor = XorMappedAddress::new(from, msg.transaction_id());
            if resp.add_attribute(&xor).is_err() {
                return out;
            }
            let lc = creds.lib();
            let sealed = if msg.has_attribute(MessageIntegritySha256::TYPE) {
                resp.add_message_integrity(&lc, IntegrityAlgorithm::Sha256).is_ok()
            } else if msg.has_attribute(MessageIntegrity::TYPE) {
                resp.add_message_integrity(&lc, IntegrityAlgorithm::Sha1).is_ok()
            } else {
                true
            };
            if !sealed || resp.add_fingerprint().is_err() {
                return out;
            }
            srv_send(agent, resp, from, via_send, &mut out);
        }
    }
    out
}

/// Server-side ledger (the agent in the *responder* role, which the client-side transaction model
/// never sees): one per server agent.
///  * C15: the set of validated peers equals the set of source addresses whose delivery was answered
///    `IncomingStun` / `StunResponse` — asked after every delivery for every address the server has
///    seen traffic from (accepted, refused by the parser, or dropped), every client's address as the
///    server sees it, the attacker's and the server's own;
///  * C18: an answer handed to the server agent's `send` comes back as exactly one transmission with
///    the bytes `build()` gave, from the server's address to the requester, over the agent's
///    transport, and leaves no request transaction behind;
///  * C05: an agent that never sent a request has nothing outstanding — `poll` reports no event.
#[derive(Default)]
struct Ledger {
    valid: std::collections::BTreeSet<SocketAddr>,
    seen: std::collections::BTreeSet<SocketAddr>,
}

fn server_judge(ctx: &mut Ctx, agent: &mut StunAgent, lg: &mut Ledger, local: SocketAddr, tcp: bool, data: &[u8], from: SocketAddr, out: &SrvOut, at: u64) -> ScResult {
    lg.seen.insert(from);
    if out.reply_kind >= 2 {
        lg.valid.insert(from);
    }
    let addrs: Vec<SocketAddr> = lg.seen.iter().copied().collect();
    for a in addrs {
        let got = g("C15", "server: is_validated_peer", || agent.is_validated_peer(a))?;
        let want = lg.valid.contains(&a);
        if got != want {
            let v = Violation::new("C15", if want { "stays_validated" } else { "validated_only_by_accepted_message" }, "world_server", format!("server agent: is_validated_peer({a}) = {got} after a delivery from {from} that was {}; expected {want}", ["refused by the parser", "answered Drop", "answered StunResponse", "answered IncomingStun"][out.reply_kind as usize]));
            ev!(ctx, "  !! {}", v.message);
            return Err(v);
        }
    }
    ctx.st.inc("op.server_ledger_check");
    if let Some((built, sent)) = &out.sent {
        match sent {
            Err(e) => {
                let v = Violation::new("C18", "nonrequest_sent", "world_server", format!("server agent: send of a response was refused: {e}"));
                ev!(ctx, "  !! {}", v.message);
                return Err(v);
            }
            Ok((d, f, t, is_tcp)) => {
                if d != built {
                    let v = Violation::new("C18", "nonrequest_bytes", "world_server", format!("server agent: the response was transmitted with other bytes than its serialisation ({}B vs {}B)", d.len(), built.len()));
                    ev!(ctx, "  !! {}", v.message);
                    return Err(v);
                }
                if *f != local || *t != from || *is_tcp != tcp {
                    let v = Violation::new("C18", "nonrequest_addressing", "world_server", format!("server agent: response transmitted {f}->{t} tcp={is_tcp}, expected {local}->{from} tcp={tcp}"));
                    ev!(ctx, "  !! {}", v.message);
                    return Err(v);
                }
            }
        }
        ctx.st.inc("op.server_response_through_send");
    }
    // the server never sent a request: nothing is outstanding, whatever arrived
    if let Some(tid) = tid_of(data) {
        let some = g("C05", "server: request_transaction", || agent.request_transaction(stun_types::message::TransactionId::from(tid)).is_some())?;
        if some {
            let v = Violation::new("C05", "outstanding_bookkeeping", "world_server", format!("server agent lists a request transaction {tid:#x} although it never sent a request"));
            ev!(ctx, "  !! {}", v.message);
            return Err(v);
        }
    }
    if ctx.ch.rare(1, 4) {
        let now_i = anchor() + std::time::Duration::from_nanos(at);
        let ev_ = g("C05", "server: poll", || !matches!(agent.poll(now_i), stun_proto::agent::StunAgentPollRet::WaitUntil(_)))?;
        if ev_ {
            let v = Violation::new("C05", "no_event_without_transaction", "world_server", "server agent: poll reported an event although the agent never sent a request".into());
            ev!(ctx, "  !! {}", v.message);
            return Err(v);
        }
        ctx.st.inc("op.server_poll");
    }
    Ok(())
}

fn frame(b: &[u8]) -> Vec<u8> {
    let mut v = (b.len() as u16).to_be_bytes().to_vec();
    v.extend_from_slice(b);
    v
}

/// Send a datagram through the faulty UDP link.
fn udp_send(ctx: &mut Ctx, net: &mut Net, mut bytes: Vec<u8>, mk: impl Fn(Vec<u8>) -> Ev) {
    let faults = net.faults_on();
    if net.partitioned && faults {
        ctx.st.inc("fault.partition_drop");
        return;
    }
    if faults && ctx.ch.rare(net.drop_p, 100) {
        ctx.st.inc("fault.drop");
        return;
    }
    if faults && ctx.ch.rare(net.corrupt_p, 100) && !bytes.is_empty() {
        let bit = ctx.ch.below(bytes.len() as u64 * 8) as usize;
        bytes[bit / 8] ^= 0x80 >> (bit % 8);
        ctx.st.inc("fault.corrupt_bit");
    }
    if faults && ctx.ch.rare(net.trunc_p, 100) && !bytes.is_empty() {
        let k = ctx.ch.below(bytes.len() as u64) as usize;
        bytes.truncate(k);
        ctx.st.inc("fault.truncate");
    }
    if faults && ctx.ch.rare(net.coalesce_p, 100) {
        // datagram coalescing: the same datagram twice in one delivery
        let copy = bytes.clone();
        bytes.extend_from_slice(&copy);
        ctx.st.inc("fault.concatenate_next");
    }
    let lat = net.base_latency + if net.jitter > 0 { ctx.ch.below(net.jitter) } else { 0 };
    if lat > net.base_latency + net.jitter / 2 {
        ctx.st.inc("fault.delay_reorder");
    }
    let at = net.now + lat;
    if faults && ctx.ch.rare(net.dup_p, 100) {
        ctx.st.inc("fault.duplicate");
        let lat2 = net.base_latency + ctx.ch.below(net.jitter.max(1) * 2);
        net.push(net.now + lat2, mk(bytes.clone()));
    }
    net.push(at, mk(bytes));
}

/// Write bytes into a TCP stream: cut into segments delivered in order with increasing times.
fn tcp_send(ctx: &mut Ctx, net: &mut Net, bytes: &[u8], cut: bool, mk: impl Fn(Vec<u8>) -> Ev) {
    if cut {
        return;
    }
    let mut pos = 0;
    let mut at = net.now + net.base_latency;
    let mode = ctx.ch.below(4);
    while pos < bytes.len() {
        let rem = bytes.len() - pos;
        let n = match mode {
            0 => rem,
            1 => 1,
            2 => ctx.ch.range(1, 3) as usize,
            _ => ctx.ch.range(1, rem as u64) as usize,
        }
        .min(rem);
        if n < rem {
            ctx.st.inc("fault.segmentation");
        }
        net.push(at, mk(bytes[pos..pos + n].to_vec()));
        pos += n;
        at += ctx.ch.below(20) * MS;
        if net.faults_on() && ctx.ch.rare(1, 40) {
            at += ctx.ch.range(1, 5) * SEC;
            ctx.st.inc("fault.stream_stall");
        }
    }
}

pub fn scenario(ctx: &mut Ctx) -> ScResult {
    let profile = ctx.cfg.profile.clone();
    let nclients = ctx.ch.range(1, 3) as usize;
    let server_addr = SocketAddr::new(IpAddr::V4(Ipv4Addr::new(192, 0, 2, 1)), 3478);
    let attacker_addr = SocketAddr::new(IpAddr::V4(Ipv4Addr::new(192, 0, 2, 1)), 3479);
    let hostile_net = profile != "calm";
    let mut net = Net {
        q: BinaryHeap::new(),
        seq: 0,
        now: 0,
        faults_until: ctx.ch.range(5, 120) * SEC,
        partitioned: false,
        drop_p: if hostile_net { *ctx.ch.pick(&[10u64, 0, 30, 60]) } else { 0 },
        dup_p: if hostile_net { *ctx.ch.pick(&[5u64, 0, 30]) } else { 0 },
        corrupt_p: if hostile_net { *ctx.ch.pick(&[3u64, 0, 15]) } else { 0 },
        trunc_p: if hostile_net { *ctx.ch.pick(&[2u64, 0, 10]) } else { 0 },
        coalesce_p: if hostile_net { *ctx.ch.pick(&[2u64, 0, 10]) } else { 0 },
        nat_p: *ctx.ch.pick(&[0u64, 50]),
        hostile: hostile_net,
        base_latency: ctx.ch.range(1, 80) * MS,
        jitter: *ctx.ch.pick(&[10u64, 0, 300, 2000]) * MS,
    };
    // clients
    let mut clients: Vec<Client> = vec![];
    let mut shared: Option<(Creds, Creds, Creds)> = None;
    for i in 0..nclients {
        let tcp = ctx.ch.rare(1, 3);
        let mut sim = AgentSim::new(ctx, tcp);
        sim.now = 0; // the event queue owns the clock here
        sim.huge = false; // bursts of hundreds of requests belong to the `agent` scenario
        sim.max_live = sim.max_live.min(40);
        if let Some((l, p, o)) = &shared {
            sim.local_creds = l.clone();
            sim.peer_creds = p.clone();
            sim.other_creds = o.clone();
        } else {
            shared = Some((sim.local_creds.clone(), sim.peer_creds.clone(), sim.other_creds.clone()));
        }
        // every client talks to the server (and, for C15, sees the attacker's address)
        sim.pool = vec![server_addr, attacker_addr, SocketAddr::new(IpAddr::V4(Ipv4Addr::new(198, 51, 100, 7)), 9)];
        let addr = sim.model.local;
        let mapped = if ctx.ch.rare(net.nat_p, 100) {
            ctx.st.inc("fault.nat_rewrite");
            SocketAddr::new(IpAddr::V4(Ipv4Addr::new(203, 0, 113, 10 + i as u8)), 50_000 + i as u16)
        } else {
            SocketAddr::new(addr.ip(), addr.port() + i as u16)
        };
        sim.max_live = sim.max_live.max(2);
        clients.push(Client { sim, tcp, addr, mapped, rx: TcpBuffer::new(), rx_hdr: vec![], conn_cut: false, late_policy: *ctx.ch.pick(&[0u64, 0, 1, 50, 700]), stall_until: 0, header_delimited: ctx.ch.rare(1, 3), scheduled: Default::default() });
    }
    let (_local_c, peer_c, _other_c) = shared.clone().unwrap();
    let mut server = Server { addr: server_addr, udp: new_agent(false, server_addr), tcp: (0..nclients).map(|_| (new_agent(true, server_addr), TcpBuffer::new(), vec![])).collect(), creds: peer_c.clone(), handled: 0, udp_ledger: Ledger::default(), tcp_ledgers: (0..nclients).map(|_| Ledger::default()).collect() };
    ev!(ctx, "world: {} client(s) [{}], server {}, faults until +{}s drop={}% dup={}% corrupt={}% latency={}ms jitter={}ms", nclients, clients.iter().map(|c| if c.tcp { "tcp" } else { "udp" }).collect::<Vec<_>>().join(","), server.addr, net.faults_until / SEC, net.drop_p, net.dup_p, net.corrupt_p, net.base_latency / MS, net.jitter / MS);
    // initial configuration: remote credentials known in most runs
    for c in clients.iter_mut() {
        if !ctx.ch.rare(1, 5) {
            let pc = c.sim.peer_creds.clone();
            c.sim.call(ctx, Call::SetRemote(pc.clone()))?;
            c.sim.model.remote = Some(pc);
        }
    }
    // application schedule
    for (i, _) in clients.iter().enumerate() {
        let n = ctx.ch.range(1, 8);
        let mut t = 0u64;
        for _ in 0..n {
            t += ctx.ch.below(20_000) * MS;
            net.push(t, Ev::App(i));
        }
    }
    if hostile_net {
        let n = ctx.ch.below(6);
        for _ in 0..n {
            let t = ctx.ch.below(net.faults_until / MS + 1) * MS;
            net.push(t, Ev::Attack);
        }
        if ctx.ch.rare(1, 3) {
            let t = ctx.ch.below(net.faults_until / MS + 1) * MS;
            net.push(t, Ev::PartitionStart);
            net.push(t + ctx.ch.range(1, 30) * SEC, Ev::PartitionEnd);
        }
    }
    let sign_bias = if profile == "forgery" { 8 } else { 3 };
    let mut events = 0u64;
    let max_events = 4000u64;
    let mut genuine_log: Vec<(usize, Vec<u8>)> = vec![]; // responses the server produced (for replay attacks)
    let mut last_app = 0u64;
    while let Some(Item { at, ev, .. }) = net.q.pop() {
        events += 1;
        if events > max_events {
            break;
        }
        net.now = at;
        match ev {
            Ev::PartitionStart => {
                net.partitioned = true;
                ctx.st.inc("fault.partition");
                ev!(ctx, "t={} partition", fmt_ns(at as i128));
            }
            Ev::PartitionEnd => {
                net.partitioned = false;
                ev!(ctx, "t={} heal", fmt_ns(at as i128));
            }
            Ev::App(i) => {
                last_app = at;
                let c = &mut clients[i];
                c.sim.now = at;
                let k = ctx.ch.weighted(&[10, 2, 2, 2, 1, 1]);
                match k {
                    0 => {
                        let before = c.sim.model.txs.len();
                        // requests go to the server
                        c.sim.pool.truncate(1);
                        c.sim.op_send_request(ctx, sign_bias)?;
                        c.sim.pool = vec![server_addr, attacker_addr, SocketAddr::new(IpAddr::V4(Ipv4Addr::new(198, 51, 100, 7)), 9)];
                        c.sim.invariants(ctx)?;
                        if c.sim.model.txs.len() > before {
                            let tx = c.sim.model.txs.last().unwrap().clone();
                            if ctx.ch.rare(1, 3) {
                                c.sim.op_configure(ctx, Some(tx.tid))?;
                            }
                            transmit(ctx, &mut net, i, c, &tx.bytes);
                        }
                    }
                    1 => c.sim.op_cancel(ctx)?,
                    2 => c.sim.op_cancel_retrans(ctx)?,
                    3 => c.sim.op_configure(ctx, None)?,
                    4 => c.sim.op_set_remote(ctx)?,
                    _ => {
                        // the client stalls: no polling for a while
                        c.stall_until = at + ctx.ch.range(1, 60) * SEC;
                        ctx.st.inc("fault.stall_or_clock_jump");
                    }
                }
                c.sim.invariants(ctx)?;
                if c.scheduled.insert(at) {
                    net.push(at, Ev::Wake(i));
                }
            }
            Ev::Wake(i) => {
                let c = &mut clients[i];
                c.scheduled.remove(&at);
                if at < c.stall_until && net.faults_on() {
                    let t = c.stall_until;
                    if c.scheduled.insert(t) {
                        net.push(t, Ev::Wake(i));
                    }
                    continue;
                }
                c.sim.now = at.max(c.sim.now);
                let t = c.sim.now;
                // drain: poll until WaitUntil
                let mut guard_n = 0;
                loop {
                    guard_n += 1;
                    if guard_n > 64 + 3 * c.sim.model.txs.len() {
                        return Err(Violation::new("C05", "completes_within_bound", "poll_drain", "64 consecutive polls at one instant all returned events".into()));
                    }
                    match c.sim.poll_at(ctx, t, 0)? {
                        PollOutcome::Wait => {
                            if let Some((_, w)) = c.sim.model.last_wait {
                                if c.sim.model.live_count() > 0 {
                                    let late = if net.faults_on() { c.late_policy * MS } else { 0 };
                                    let wt = (w as u64).max(t) + late;
                                    if c.scheduled.insert(wt) {
                                        net.push(wt, Ev::Wake(i));
                                    }
                                }
                            }
                            break;
                        }
                        PollOutcome::Retransmit(tid) => {
                            let bytes = c.sim.model.txs.iter().rfind(|x| x.tid == tid).map(|x| x.bytes.clone()).unwrap_or_default();
                            transmit(ctx, &mut net, i, c, &bytes);
                        }
                        _ => {}
                    }
                    c.sim.invariants(ctx)?;
                }
                c.sim.invariants(ctx)?;
            }
            Ev::ToServer { bytes, from, reply_to } => {
                server.handled += 1;
                let creds = server.creds.clone();
                // (stund.rs answers UDP requests with the built bytes directly; an application may just as
                // well hand the answer to its agent's send — done here for every other datagram)
                let via = if ctx.ch.coin() { Some(anchor() + std::time::Duration::from_nanos(at)) } else { None };
                let r = g(&ctx.cfg.prop, "server: handle_incoming_data", || server_handle(&mut server.udp, &bytes, from, &creds, via))?;
                let sa0 = server.addr;
                server_judge(ctx, &mut server.udp, &mut server.udp_ledger, sa0, false, &bytes, from, &r, at)?;
                if let Some(resp) = r.resp {
                    ctx.st.inc("op.server_response");
                    genuine_log.push((reply_to, resp.clone()));
                    let sa = server.addr;
                    udp_send(ctx, &mut net, resp, |b| Ev::ToClient { c: reply_to, bytes: b, from: sa });
                }
            }
            Ev::SegToServer { c: i, bytes } => {
                let mapped = clients[i].mapped;
                let creds = server.creds.clone();
                let (agent, buf, _) = &mut server.tcp[i];
                g(&ctx.cfg.prop, "TcpBuffer::push_data", || buf.push_data(&bytes))?;
                loop {
                    let f = g(&ctx.cfg.prop, "TcpBuffer::pull_data", || buf.pull_data())?;
                    let Some(f) = f else { break };
                    server.handled += 1;
                    let now_i = anchor() + std::time::Duration::from_nanos(at);
                    let r = g(&ctx.cfg.prop, "server: handle_incoming_data", || server_handle(agent, &f, mapped, &creds, Some(now_i)))?;
                    server_judge(ctx, agent, &mut server.tcp_ledgers[i], server.addr, true, &f, mapped, &r, at)?;
                    if let Some(resp) = r.resp {
                        ctx.st.inc("op.server_response");
                        genuine_log.push((i, resp.clone()));
                        let cut = clients[i].conn_cut;
                        let fr = frame(&resp);
                        tcp_send(ctx, &mut net, &fr, cut, |b| Ev::SegToClient { c: i, bytes: b });
                    }
                }
            }
            Ev::SegToClient { c: i, bytes } => {
                let c = &mut clients[i];
                if c.conn_cut {
                    continue;
                }
                let sa = server.addr;
                let mut msgs: Vec<Vec<u8>> = vec![];
                if c.header_delimited {
                    // RFC 4571 prefix stripped by hand, then header-delimited reassembly via MessageHeader
                    c.rx_hdr.extend_from_slice(&bytes);
                    loop {
                        if c.rx_hdr.len() < 2 + 20 {
                            break;
                        }
                        let h = g(&ctx.cfg.prop, "MessageHeader::from_bytes", || MessageHeader::from_bytes(&c.rx_hdr[2..22]).map(|h| h.data_length() as usize))?;
                        let Ok(l) = h else {
                            c.rx_hdr.clear();
                            break;
                        };
                        if c.rx_hdr.len() < 2 + 20 + l {
                            break;
                        }
                        msgs.push(c.rx_hdr[2..22 + l].to_vec());
                        c.rx_hdr.drain(..22 + l);
                    }
                } else {
                    g(&ctx.cfg.prop, "TcpBuffer::push_data", || c.rx.push_data(&bytes))?;
                    while let Some(f) = g(&ctx.cfg.prop, "TcpBuffer::pull_data", || c.rx.pull_data())? {
                        msgs.push(f);
                    }
                }
                for m in msgs {
                    deliver_to_client(ctx, c, at, m, sa)?;
                }
                if c.scheduled.insert(at) {
                    net.push(at, Ev::Wake(i));
                }
            }
            Ev::ToClient { c: i, bytes, from } => {
                let c = &mut clients[i];
                deliver_to_client(ctx, c, at, bytes, from)?;
                if c.scheduled.insert(at) {
                    net.push(at, Ev::Wake(i));
                }
            }
            Ev::Attack => {
                // the attacker sees traffic: forge against a live transaction of some client
                let i = ctx.ch.below(nclients as u64) as usize;
                let c = &mut clients[i];
                let live: Vec<(u128, bool)> = c.sim.model.live().map(|t| (t.tid, t.signed)).collect();
                let kw: [u32; 10] = [0, 6, 6, 3, 5, 3, 3, 0, 3, 1];
                let bytes = if !genuine_log.is_empty() && ctx.ch.rare(1, 3) {
                    ctx.st.inc("fault.response_replayed");
                    let k = ctx.ch.below(genuine_log.len() as u64) as usize;
                    genuine_log[k].1.clone()
                } else if let Some(&(tid, signed)) = live.first() {
                    ctx.st.inc("fault.forged_response");
                    { let m = c.sim.model.txs.iter().rfind(|t| t.tid == tid).map(|t| t.method).unwrap_or(1); c.sim.gen_response(ctx, tid, m, signed, &kw).0 }
                } else {
                    continue;
                };
                // the attacker also talks to the server: a response-class message (forged, or a replayed
                // genuine one) that belongs to no transaction of the server's must be dropped there and
                // must not validate the attacker's address
                if ctx.ch.rare(1, 3) {
                    ctx.st.inc("fault.attacker_response_to_server");
                    let at3 = net.now + ctx.ch.below(50) * MS;
                    net.push(at3, Ev::ToServer { bytes: bytes.clone(), from: attacker_addr, reply_to: i });
                }
                let from = if ctx.ch.coin() { server.addr } else { attacker_addr };
                if c.tcp {
                    // (injecting into an established TCP stream is not modelled)
                    continue;
                }
                let at2 = net.now + ctx.ch.below(50) * MS;
                net.push(at2, Ev::ToClient { c: i, bytes, from });
            }
        }
        // occasionally cut a TCP connection while faults are on
        if net.faults_on() && events % 97 == 0 {
            for c in clients.iter_mut() {
                if c.tcp && !c.conn_cut && ctx.ch.rare(1, 6) {
                    c.conn_cut = true;
                    ctx.st.inc("fault.connection_cut");
                }
            }
        }
    }
    // bounded liveness: the queue is empty (every client reached WaitUntil with nothing outstanding)
    // or the event budget ran out; in the first case nothing may be outstanding
    let leftover: usize = clients.iter().map(|c| c.sim.model.live_count()).sum();
    if events <= max_events && leftover > 0 {
        let v = Violation::new("C05", "completes_within_bound", "world_quiescent", format!("the event queue drained (all clients polled at every announced wake-up) but {leftover} transaction(s) are still outstanding"));
        ev!(ctx, "  !! {}", v.message);
        return Err(v);
    }
    if events > max_events {
        ctx.st.inc("probe.event_budget_exhausted");
    }
    // bounded liveness proper: once faults have stopped every transmission happens on time, so a
    // transaction cannot be outstanding longer than its whole schedule after max(send, quiescence)
    let quiet = net.faults_until + 61 * SEC;
    for c in clients.iter() {
        for t in c.sim.model.live() {
            if t.sc {
                // when a send-cancelled transaction completes is not bounded by any property
                continue;
            }
            // (from the later of its last transmission and the end of the faults: after a
            // reconfiguration in mid-schedule `sent_at + whole schedule` would be too small)
            let total: u64 = (t.intervals_ms.iter().sum::<u64>() + t.final_ms) * MS;
            let bound = t.sent_at.max(t.last).max(quiet) + total + SEC;
            if net.now > bound {
                let v = Violation::new("C05", "completes_within_bound", "world_after_quiescence", format!("transaction {:#x} sent at +{} is still outstanding at +{}, more than its whole schedule ({} ms) after faults stopped", t.tid, fmt_ns(t.sent_at as i128), fmt_ns(net.now as i128), total / MS));
                ev!(ctx, "  !! {}", v.message);
                return Err(v);
            }
        }
    }
    // every completed transaction finished no later than its model deadline allows: enforced call by
    // call by the model (a poll at/after the deadline that answers WaitUntil is a violation)
    let mut sim_end = net.now;
    for c in clients.iter_mut() {
        for k in c.sim.model.tolerated.drain(..) {
            ctx.st.inc(k);
        }
        for t in &c.sim.model.txs {
            match t.status {
                Status::Delivered => ctx.st.inc("out.world_delivered"),
                Status::TimedOut => ctx.st.inc("out.world_timed_out"),
                Status::Cancelled => ctx.st.inc("out.world_cancelled"),
                Status::Live => ctx.st.inc("out.world_still_live_at_budget"),
            }
        }
        sim_end = sim_end.max(c.sim.now);
    }
    let _ = last_app;
    ctx.st.add("op.server_messages_handled", server.handled);
    ctx.st.sim_ns += sim_end as u128;
    ctx.st.nontrivial = true;
    Ok(())
}

fn transmit(ctx: &mut Ctx, net: &mut Net, i: usize, c: &mut Client, bytes: &[u8]) {
    ctx.st.inc("op.client_transmission");
    if c.tcp {
        let fr = frame(bytes);
        tcp_send(ctx, net, &fr, c.conn_cut, |b| Ev::SegToServer { c: i, bytes: b });
    } else {
        // NAT rebinding while faults are on: now and then a datagram leaves the NAT from another port,
        // so the server sees addresses with little traffic — sometimes only damaged traffic — of their own
        let from = if net.hostile && net.faults_on() && net.nat_p > 0 && ctx.ch.rare(1, 8) {
            ctx.st.inc("fault.nat_rebinding");
            SocketAddr::new(c.mapped.ip(), c.mapped.port().wrapping_add(1000 + ctx.ch.below(3) as u16))
        } else {
            c.mapped
        };
        udp_send(ctx, net, bytes.to_vec(), |b| Ev::ToServer { bytes: b, from, reply_to: i });
    }
}

fn deliver_to_client(ctx: &mut Ctx, c: &mut Client, at: u64, bytes: Vec<u8>, from: SocketAddr) -> ScResult {
    c.sim.now = at.max(c.sim.now);
    // diagnostics only (C03/C13 are not claimed): what the reference decoder thinks of it
    if let Verdict::Reject(_) = refcodec::decode(&bytes) {
        ctx.st.inc("probe.damaged_datagram_reached_client");
    }
    if bytes.len() < 2 {
        // a receiver would not even look at it
        ctx.st.inc("probe.runt_datagram");
    }
    let r = c.sim.call(ctx, Call::Handle { bytes: bytes.clone(), from })?;
    let now = c.sim.now;
    let _ = c.addr;
    if let Err(v) = c.sim.model.on_handle(now, &bytes, from, &r, &mut ctx.st) {
        ev!(ctx, "  !! {} [{}]: {}", v.clause, v.site, v.message);
        return Err(v);
    }
    match &r {
        Reply::Response(_) => ctx.st.inc("out.delivered"),
        Reply::Drop => {
            ctx.st.inc("out.dropped");
            if let Some(tid) = tid_of(&bytes) {
                if c.sim.model.live_idx(tid).map_or(false, |i| !c.sim.model.in_limbo(i)) {
                    let q = c.sim.call(ctx, Call::QueryTx { tid })?;
                    if !matches!(q, Reply::Tx(Some(_))) {
                        let pr = if ctx.cfg.prop == "C05" { "C05" } else { "C07" };
                        let v = Violation::new(pr, "drop_keeps_transaction_outstanding", "world", format!("a response for outstanding transaction {tid:#x} was dropped, and the transaction is no longer outstanding afterwards"));
                        ev!(ctx, "  !! {}", v.message);
                        return Err(v);
                    }
                }
            }
        }
        Reply::ParseErr(_) => ctx.st.inc("out.parse_refused"),
        _ => {}
    }
    c.sim.invariants(ctx)
}
