//! stunsim — deterministic simulation with fault injection for ystreet/stun-proto.
//! Entry points: `check <ID> quick|thorough`, `replay <file>`, `selftest determinism`,
//! plus developer commands (`run`, `trace`, `hashes`).  See /verif/DESIGN.md.

#![allow(dead_code)]
mod agentapi;
mod choices;
mod core;
mod faults;
mod gen;
mod model_tx;
mod pipeline;
mod plan;
mod refcodec;
mod sc_agent;
mod sc_codec;
mod sc_tcpstream;
mod sc_wire;
mod sc_world;

use crate::choices::Choices;
use crate::core::*;
use serde_json::{json, Value};
use std::collections::BTreeMap;
use std::time::Instant;

/// a single library call that does not return for this long (wall) is a hang
pub const WATCHDOG_SECS: u64 = 20;
/// whole-run cap (wall), however many calls it makes
pub const RUN_CAP_SECS: u64 = 900;

fn verif_dir() -> String {
    std::env::var("VERIF_DIR").unwrap_or_else(|_| ".".into())
}
fn seed_from_env() -> u64 {
    std::env::var("VERIF_SEED").ok().and_then(|s| s.trim().parse::<i64>().ok()).map(|x| x as u64).unwrap_or(1)
}
fn threads_from_env() -> usize {
    std::env::var("VERIF_THREADS").ok().and_then(|s| s.parse().ok()).unwrap_or_else(|| std::thread::available_parallelism().map(|n| n.get()).unwrap_or(4).min(16))
}

/// Called by the watchdog when a run exceeds its wall-clock budget: hung runs cannot be
/// minimised, so the replay file carries (seed, run) only.
pub fn report_hang(cfg: &Cfg, seed: u64, run: u64) -> ! {
    let dir = format!("{}/replays", verif_dir());
    let _ = std::fs::create_dir_all(&dir);
    let path = format!("{dir}/{}-{}-{}-{}-hang.json", cfg.prop, cfg.scenario, seed, run);
    let doc = json!({"format": 1, "cfg": cfg.to_json(), "seed": seed, "run": run, "hang": true,
        "violation": {"property": cfg.prop, "clause": format!("{}.terminates", cfg.prop), "site": "watchdog", "message": format!("a library call did not return within {WATCHDOG_SECS}s of wall time (or the run exceeded {RUN_CAP_SECS}s)")}});
    let _ = std::fs::write(&path, serde_json::to_string_pretty(&doc).unwrap());
    println!("VIOLATION property={} replay={}", cfg.prop, path);
    std::process::exit(1);
}

fn usage() -> ! {
    eprintln!("usage: stunsim check <ID> quick|thorough | replay <file> | selftest determinism [--fast] | run <scenario> <profile> <prop> <runs> [first] | trace <scenario> <profile> <prop> <run> | hashes <scenario> <profile> <prop> <first> <runs> <threads>");
    std::process::exit(2);
}

fn main() {
    install_panic_hook();
    let _ = agentapi::anchor();
    let args: Vec<String> = std::env::args().skip(1).collect();
    if args.is_empty() {
        usage();
    }
    let code = match args[0].as_str() {
        "check" if args.len() >= 3 => cmd_check(&args[1], &args[2]),
        "replay" if args.len() >= 2 => cmd_replay(&args[1]),
        "selftest" if args.len() >= 2 && args[1] == "determinism" => cmd_determinism(args.iter().any(|a| a == "--fast")),
        "run" if args.len() >= 5 => cmd_run(&args[1..]),
        "trace" if args.len() >= 5 => cmd_trace(&args[1..]),
        "hashes" if args.len() >= 7 => cmd_hashes(&args[1..]),
        _ => usage(),
    };
    std::process::exit(code);
}

fn die(e: HarnessError) -> i32 {
    eprintln!("HARNESS-ERROR: {}", e.0);
    2
}

// ------------------------------------------------------------------------------------------------

fn cmd_check(prop: &str, tier: &str) -> i32 {
    // the explicit argument wins; VERIF_TIER is only consulted when the argument is not a tier
    let thorough = match tier {
        "thorough" => true,
        "quick" => false,
        _ => std::env::var("VERIF_TIER").ok().as_deref() == Some("thorough"),
    };
    let Some(p) = plan::plan(prop, thorough) else {
        eprintln!("HARNESS-ERROR: property {prop} has no check (not claimed or unknown)");
        return 2;
    };
    let seed = seed_from_env();
    let threads = threads_from_env();
    let dir = verif_dir();
    let known = match load_findings(&format!("{dir}/known_findings.json")) {
        Ok(k) => k,
        Err(e) => return die(e),
    };
    println!("VERIF_SEED={seed} property={prop} tier={} threads={threads}", if thorough { "thorough" } else { "quick" });
    let t0 = Instant::now();
    let mut outs: Vec<BatchOut> = vec![];
    let mut violation: Option<(String, Violation)> = None;
    for b in &p.batches {
        let cfg = Cfg { prop: prop.to_string(), scenario: b.scenario.to_string(), profile: b.profile.to_string(), thorough };
        let f = plan::scenario_fn(b.scenario).expect("scenario registered");
        let out = run_batch(f, &cfg, seed, 0, b.runs, threads, &known);
        println!(
            "  batch scenario={} profile={} runs={} distinct={} nontrivial_distinct={} wall={:.1}s foreign={:?}",
            b.scenario,
            b.profile,
            out.runs,
            out.hashes.len(),
            out.nontrivial_hashes.len() + out.case_hashes.len(),
            out.wall_s,
            out.foreign
        );
        if !out.harness_errors.is_empty() {
            eprintln!("HARNESS-ERROR: {}", out.harness_errors[0]);
            return 2;
        }
        if let Some((run, v, rec)) = &out.violation {
            // minimise, write the replay file
            let sig = v.sig();
            let (min, execs) = shrink(f, &cfg, rec.clone(), &sig);
            match write_replay(&format!("{dir}/replays"), f, &cfg, seed, *run, &min, rec, v, execs) {
                Ok((path, v2)) => {
                    println!("  violation {} [{}]: {}", v2.clause, v2.site, v2.message);
                    violation = Some((path, v2));
                }
                Err(e) => return die(e),
            }
            outs.push(out);
            break;
        }
        outs.push(out);
    }
    // known findings that were hit
    let mut known_hit: BTreeMap<(String, String, String), u64> = BTreeMap::new();
    for o in &outs {
        for (k, n) in &o.known_hits {
            *known_hit.entry(k.clone()).or_insert(0) += n;
        }
    }
    for ((p, c, s), n) in &known_hit {
        let what = known.iter().find(|k| &k.property == p && &k.clause == c && &k.site == s).map(|k| k.what.clone()).unwrap_or_default();
        println!("KNOWN-FINDING: property={p} clause={c} site={s} hits={n} {what}");
    }
    let wall = t0.elapsed().as_secs_f64();
    if let Err(e) = write_evidence(&dir, prop, thorough, seed, &p, &outs, violation.as_ref().map(|x| &x.1), wall, threads) {
        return die(e);
    }
    match violation {
        Some((path, _)) => {
            println!("VIOLATION property={prop} replay={path}");
            1
        }
        None => {
            println!("OK property={prop} runs={} wall={wall:.1}s", outs.iter().map(|o| o.runs).sum::<u64>());
            0
        }
    }
}

fn write_evidence(dir: &str, prop: &str, thorough: bool, seed: u64, p: &plan::Plan, outs: &[BatchOut], viol: Option<&Violation>, wall: f64, threads: usize) -> Result<(), HarnessError> {
    let mut total = Stats::default();
    let mut runs = 0u64;
    let mut distinct_nt = 0u64;
    let mut distinct = 0u64;
    let mut foreign: BTreeMap<String, u64> = BTreeMap::new();
    let mut batches = vec![];
    for o in outs {
        total.merge(&o.stats);
        runs += o.runs;
        distinct += o.hashes.len() as u64;
        distinct_nt += (o.nontrivial_hashes.len() + o.case_hashes.len()) as u64;
        for (k, v) in &o.foreign {
            *foreign.entry(k.clone()).or_insert(0) += v;
        }
        batches.push(json!({"scenario": o.cfg.scenario, "profile": o.cfg.profile, "runs": o.runs, "distinct_runs": o.hashes.len(), "wall_s": (o.wall_s * 100.0).round() / 100.0}));
    }
    let evaluations = if total.cases > 0 { total.cases + runs } else { runs };
    // samples: re-execute the first runs of each batch with full logging
    let mut samples = vec![];
    for o in outs {
        let f = plan::scenario_fn(&o.cfg.scenario).unwrap();
        let sid = scenario_id(&o.cfg.scenario) ^ scenario_id(&o.cfg.profile).rotate_left(17);
        for run in 0..2u64.min(o.runs) {
            let out = run_one(f, &o.cfg, Choices::generating(seed, sid, run), true);
            let mut lines = out.lines;
            let n = lines.len();
            if n > 40 {
                lines.truncate(40);
                lines.push(format!("… ({} more events)", n - 40));
            }
            samples.push(json!({"scenario": o.cfg.scenario, "profile": o.cfg.profile, "run": run, "event_log_hash": format!("{:016x}", out.hash), "choices": out.rec.len(), "trace": lines}));
        }
    }
    let group = |prefix: &str| -> Value {
        let mut m = serde_json::Map::new();
        for (k, v) in &total.c {
            if let Some(rest) = k.strip_prefix(prefix) {
                m.insert(rest.to_string(), json!(v));
            }
        }
        Value::Object(m)
    };
    let zero_probes: Vec<&str> = p.required_probes.iter().copied().filter(|k| total.c.get(k).copied().unwrap_or(0) == 0).collect();
    let cov = json!({
        "evaluations": evaluations,
        "distinct_nontrivial": distinct_nt,
        "rule": p.rule,
        "samples": samples,
        "exhaustive": false,
        "simulated_runs": runs,
        "distinct_runs_by_event_log_hash": distinct,
        "runs_per_hour": if wall > 0.0 { (runs as f64 / wall * 3600.0) as u64 } else { 0 },
        "seeds_per_hour": if wall > 0.0 { (runs as f64 / wall * 3600.0) as u64 } else { 0 },
        "simulated_seconds": (total.sim_ns / 1_000_000_000) as u64,
        "worker_threads": threads,
        "batches": batches,
        "faults_fired": group("fault."),
        "ops": group("op."),
        "outcomes": group("out."),
        "probes": group("probe."),
        "replays": group("replay."),
        "enumerated": group("enum."),
        "parser_verdicts": group("verdict."),
        "distinct_model_states": total.states.len(),
        "distinct_op_trigrams": total.grams.len(),
        "coverage_holes": zero_probes,
        "foreign_property_violations": foreign,
        "foreign_property_discrepancies_followed": group("foreign."),
        "components": {
            "real": p.real,
            "simulated": p.simulated,
            "reference_models": p.reference,
        },
    });
    let doc = json!({
        "property_id": prop,
        "tier": if thorough { "thorough" } else { "quick" },
        "seed": seed as i64,
        "level": p.level,
        "coverage": cov,
        "assumptions": p.assumptions,
        "wall_s": (wall * 100.0).round() / 100.0,
        "violations": if viol.is_some() { 1 } else { 0 },
        "violation": viol.map(|v| v.to_json()),
    });
    let edir = format!("{dir}/evidence");
    std::fs::create_dir_all(&edir).map_err(|e| HarnessError(format!("{edir}: {e}")))?;
    let path = format!("{edir}/{prop}.json");
    std::fs::write(&path, serde_json::to_string_pretty(&doc).unwrap()).map_err(|e| HarnessError(format!("{path}: {e}")))?;
    Ok(())
}

// ------------------------------------------------------------------------------------------------

fn cmd_replay(path: &str) -> i32 {
    let s = match std::fs::read_to_string(path) {
        Ok(s) => s,
        Err(e) => return die(HarnessError(format!("{path}: {e}"))),
    };
    let doc: Value = match serde_json::from_str(&s) {
        Ok(v) => v,
        Err(e) => return die(HarnessError(format!("{path}: {e}"))),
    };
    let Some(cfg) = doc.get("cfg").and_then(Cfg::from_json) else {
        return die(HarnessError(format!("{path}: no cfg")));
    };
    let Some(f) = plan::scenario_fn(&cfg.scenario) else {
        return die(HarnessError(format!("{path}: unknown scenario {}", cfg.scenario)));
    };
    let want = doc.get("violation").cloned().unwrap_or(Value::Null);
    let g = |k: &str| want.get(k).and_then(|x| x.as_str()).unwrap_or("").to_string();
    let want_sig = (g("property"), g("clause"), g("site"));
    if doc.get("hang").and_then(|x| x.as_bool()) == Some(true) {
        let seed = doc.get("seed").and_then(|x| x.as_u64()).unwrap_or(1);
        let run = doc.get("run").and_then(|x| x.as_u64()).unwrap_or(0);
        // the watchdog reports (and exits 1) if it hangs again
        let out = run_batch(f, &cfg, seed, run, 1, 1, &[]);
        println!("replay of a hang finished in {:.1}s: not reproduced", out.wall_s);
        return 0;
    }
    let choices: Vec<u64> = match doc.get("choices").and_then(|c| c.as_array()) {
        Some(a) => a.iter().map(|x| x.as_u64().unwrap_or(0)).collect(),
        None => return die(HarnessError(format!("{path}: no choices"))),
    };
    let nondet = doc.get("nondeterministic").and_then(|x| x.as_bool()) == Some(true);
    let mut out = run_one(f, &cfg, Choices::replaying(choices.clone()), true);
    if nondet {
        // recorded as depending on ambient state: allow several attempts
        for _ in 0..50 {
            if matches!(&out.result, Err(v) if v.sig() == want_sig) {
                break;
            }
            out = run_one(f, &cfg, Choices::replaying(choices.clone()), true);
        }
    }
    if let Some(h) = out.harness_error {
        return die(HarnessError(h));
    }
    for l in &out.lines {
        println!("{l}");
    }
    println!("event_log_hash={:016x}", out.hash);
    match out.result {
        Err(v) => {
            println!("violation {} [{}]: {}", v.clause, v.site, v.message);
            if v.sig() == want_sig {
                println!("VIOLATION property={} replay={}", v.property, path);
                1
            } else {
                eprintln!("HARNESS-ERROR: replay produced a different violation than recorded ({:?} vs {:?})", v.sig(), want_sig);
                2
            }
        }
        Ok(()) => {
            println!("replay: no violation (the recorded one was {:?})", want_sig);
            0
        }
    }
}

// ------------------------------------------------------------------------------------------------

fn parse_cfg(a: &[String]) -> (ScenarioFn, Cfg) {
    let thorough = std::env::var("VERIF_TIER").ok().as_deref() == Some("thorough");
    let cfg = Cfg { scenario: a[0].clone(), profile: a[1].clone(), prop: a[2].clone(), thorough };
    let Some(f) = plan::scenario_fn(&cfg.scenario) else {
        eprintln!("unknown scenario {}", cfg.scenario);
        std::process::exit(2);
    };
    (f, cfg)
}

fn cmd_run(a: &[String]) -> i32 {
    let (f, cfg) = parse_cfg(a);
    let runs: u64 = a[3].parse().unwrap_or(1000);
    let first: u64 = a.get(4).and_then(|s| s.parse().ok()).unwrap_or(0);
    let seed = seed_from_env();
    let out = run_batch(f, &cfg, seed, first, runs, threads_from_env(), &[]);
    println!("runs={} distinct={} nontrivial={} cases={} wall={:.2}s ({:.0} runs/s) states={} grams={} sim_s={}", out.runs, out.hashes.len(), out.nontrivial_hashes.len(), out.stats.cases, out.wall_s, out.runs as f64 / out.wall_s, out.stats.states.len(), out.stats.grams.len(), out.stats.sim_ns / 1_000_000_000);
    for (k, v) in &out.stats.c {
        println!("  {k:60} {v}");
    }
    println!("foreign: {:?}", out.foreign);
    for h in &out.harness_errors {
        println!("HARNESS-ERROR {h}");
    }
    if let Some((run, v, rec)) = out.violation {
        println!("first violation at run {run}: {} [{}] {}", v.clause, v.site, v.message);
        let (min, execs) = shrink(f, &cfg, rec.clone(), &v.sig());
        println!("shrunk {} -> {} choices in {} executions", rec.len(), min.len(), execs);
        let o = run_one(f, &cfg, Choices::replaying(min), true);
        for l in o.lines {
            println!("    {l}");
        }
        return 1;
    }
    0
}

fn cmd_trace(a: &[String]) -> i32 {
    let (f, cfg) = parse_cfg(a);
    let run: u64 = a[3].parse().unwrap_or(0);
    let sid = scenario_id(&cfg.scenario) ^ scenario_id(&cfg.profile).rotate_left(17);
    let o = run_one(f, &cfg, Choices::generating(seed_from_env(), sid, run), true);
    for l in o.lines {
        println!("{l}");
    }
    println!("hash={:016x} choices={} result={:?} harness_error={:?}", o.hash, o.rec.len(), o.result, o.harness_error);
    0
}

fn cmd_hashes(a: &[String]) -> i32 {
    let (f, cfg) = parse_cfg(a);
    let first: u64 = a[3].parse().unwrap();
    let runs: u64 = a[4].parse().unwrap();
    let threads: usize = a[5].parse().unwrap();
    let seed = seed_from_env();
    let sid = scenario_id(&cfg.scenario) ^ scenario_id(&cfg.profile).rotate_left(17);
    let next = std::sync::atomic::AtomicU64::new(first);
    let all = std::sync::Mutex::new(Vec::new());
    std::thread::scope(|s| {
        for _ in 0..threads {
            s.spawn(|| {
                let mut local = vec![];
                loop {
                    let i = next.fetch_add(1, std::sync::atomic::Ordering::SeqCst);
                    if i >= first + runs {
                        break;
                    }
                    let o = run_one(f, &cfg, Choices::generating(seed, sid, i), false);
                    let tag = match (&o.result, &o.harness_error) {
                        (_, Some(_)) => "H".to_string(),
                        (Ok(()), _) => "ok".to_string(),
                        (Err(v), _) => v.clause.clone(),
                    };
                    local.push((i, o.hash, o.rec.len(), tag));
                }
                all.lock().unwrap().extend(local);
            });
        }
    });
    let mut v = all.into_inner().unwrap();
    v.sort();
    let mut out = String::new();
    for (i, h, n, tag) in v {
        out.push_str(&format!("{i} {h:016x} {n} {tag}\n"));
    }
    print!("{out}");
    0
}

fn cmd_determinism(fast: bool) -> i32 {
    let exe = std::env::current_exe().expect("current_exe");
    let runs = if fast { 300 } else { 2000 };
    let seeds: &[u64] = if fast { &[1] } else { &[1, 7] };
    let mut bad = 0;
    let mut checked = 0u64;
    for (scenario, profile, prop) in plan::all_scenarios() {
        // a `backlog` run costs up to a second (tens of thousands of pulls on a large buffer)
        let runs = if profile == "backlog" { runs / 25 } else { runs };
        for &seed in seeds {
            let go = |threads: usize, tier: &str| -> Option<String> {
                let o = std::process::Command::new(&exe)
                    .args(["hashes", scenario, profile, prop, "0", &runs.to_string(), &threads.to_string()])
                    .env("VERIF_SEED", seed.to_string())
                    .env("VERIF_TIER", tier)
                    .output()
                    .ok()?;
                if !o.status.success() {
                    return None;
                }
                Some(String::from_utf8_lossy(&o.stdout).to_string())
            };
            for tier in ["quick", "thorough"] {
                if fast && tier == "thorough" {
                    continue;
                }
                let a = go(1, tier);
                let b = go(16, tier);
                let c = go(5, tier);
                checked += runs * 3;
                if a.is_none() || a != b || a != c {
                    eprintln!("DETERMINISM FAILURE scenario={scenario} profile={profile} prop={prop} seed={seed} tier={tier}");
                    if let (Some(a), Some(b)) = (&a, &b) {
                        for (x, y) in a.lines().zip(b.lines()) {
                            if x != y {
                                eprintln!("  first difference: `{x}` vs `{y}`");
                                break;
                            }
                        }
                    }
                    bad += 1;
                } else if a.as_deref().map(|s| s.contains(" H\n")).unwrap_or(false) {
                    eprintln!("HARNESS-ERROR inside runs of scenario={scenario} profile={profile}");
                    bad += 1;
                }
            }
        }
    }
    if bad > 0 {
        eprintln!("HARNESS-ERROR: determinism self-test failed ({bad} configuration(s))");
        return 2;
    }
    println!("determinism self-test passed: {checked} executions across separate processes (1, 5 and 16 workers) produced identical event-log hashes");
    0
}
