//! Scenario `agent`: one real `StunAgent` under an adversarial, seeded driver (DESIGN.md §3.6).
//! Serves C05, C06, C07, C15, C18 (transaction model) and C20 (replays of the recorded history).

use crate::agentapi::*;
use crate::choices::Choices;
use crate::core::{Ctx, ScResult, Violation};
use crate::ev;
use crate::gen::*;
use crate::model_tx::{Model, PollOutcome, Status};
use crate::refcodec::{self, RefItem, RefMsg, Verdict};
use std::net::SocketAddr;
use std::time::{Duration, Instant};
use stun_proto::agent::StunAgent;

const MS: u64 = 1_000_000;
const SEC: u64 = 1_000_000_000;

#[derive(Clone, Copy, PartialEq, Eq, Debug)]
pub enum Op {
    SendReq = 0,
    SendOther = 1,
    Poll = 2,
    Respond = 3,
    Incoming = 4,
    Cancel = 5,
    CancelRetrans = 6,
    Configure = 7,
    SetRemote = 8,
    /// calls that must not change anything: send_data, the mutable handle's queries, getters
    Misc = 9,
}
const OPS: [Op; 10] = [Op::Poll, Op::SendReq, Op::Respond, Op::SendOther, Op::Incoming, Op::Cancel, Op::CancelRetrans, Op::Configure, Op::SetRemote, Op::Misc];

fn weights(profile: &str) -> [u32; 10] {
    // order as OPS
    match profile {
        "timing" => [50, 10, 5, 1, 1, 3, 5, 14, 1, 2],
        "forgery" => [25, 12, 38, 1, 3, 2, 2, 3, 8, 2],
        _ => [30, 14, 18, 3, 6, 4, 4, 5, 3, 3],
    }
}

pub struct AgentSim {
    pub agent: StunAgent,
    pub model: Model,
    pub base: Instant,
    pub now: u64,
    pub pool: Vec<SocketAddr>,
    pub history: Vec<(Call, Reply)>,
    pub local_creds: Creds,
    pub peer_creds: Creds,
    pub other_creds: Creds,
    pub max_live: usize,
    pub seen_live_max: usize,
    pub faults: u64,
    pub extra_tids: Vec<u128>,
    pub delivered_responses: Vec<(Vec<u8>, SocketAddr)>,
    pub prop: String,
    /// fixed remote address given to the agent's builder (None in most runs)
    pub remote: Option<SocketAddr>,
    /// the driver owns the clock (scenario `agent`); false when an event queue does (`world`)
    pub owns_clock: bool,
    pub scale: bool,
    pub huge: bool,
    pub big_requests: bool,
    /// C07 only: a twin agent that is handed the same calls *except* the responses the agent under
    /// test dropped.  "Forged responses can neither complete, cancel nor delay a transaction" means
    /// exactly that the two agents answer every other call identically.
    pub shadow: Option<StunAgent>,
    pub shadow_skipped: u64,
    inv_counter: u64,
    stress_done: bool,
    grams: [u8; 2],
    /// knob (one run in five): the application keeps `StunRequestMut` handles and makes some of its
    /// send / poll / handle_stun calls through `handle.mut_agent()`
    pub via_handle: bool,
    /// knob (one run in four): the application's clock samples are not ordered — some polls carry an
    /// instant slightly *earlier* than the latest instant already handed in
    pub stale_polls: bool,
    /// what a handle reported after a call made through it; judged at the next invariant sweep
    /// (after the model has processed that call)
    pending_after: Option<(u128, Option<SocketAddr>)>,
}

pub fn panic_violation(prop: &str, r: &Reply, what: &str) -> Option<Violation> {
    if let Reply::Panic(m, l) = r {
        Some(Violation::new(prop, "panic", l, format!("library panicked in {what}: {m} at {l}")))
    } else {
        None
    }
}

impl AgentSim {
    pub fn new(ctx: &mut Ctx, tcp: bool) -> Self {
        let thorough = ctx.cfg.thorough;
        // one run in 25 is a *scale* run: many peers, many concurrent transactions, a long history,
        // a clock that starts far from zero (thresholds of small-size optimisations, counters and
        // millisecond arithmetic are where a long-lived agent differs from a fresh one)
        let scale = ctx.ch.rare(1, 25);
        if scale {
            ctx.st.inc("probe.scale_run");
        }
        let huge = scale && ctx.ch.rare(1, if ctx.cfg.prop == "C20" || ctx.cfg.prop == "C15" { 3 } else { 8 });
        let npool = if scale { ctx.ch.range(12, 48) } else { ctx.ch.range(3, 6) } as usize;
        let mut pool = gen_addr_pool(ctx.ch, npool);
        if huge {
            // hundreds of peers (a server-side agent): systematic addresses on top of the drawn ones
            ctx.st.inc("probe.huge_peer_pool");
            let n = ctx.ch.range(230, 330);
            for i in 0..n {
                pool.push(SocketAddr::new(std::net::IpAddr::V4(std::net::Ipv4Addr::new(10, 1, (i / 250) as u8, (i % 250) as u8 + 1)), 20000 + (i % 7) as u16));
            }
        }
        // knob: an application whose requests are big (2-5 KB), in one run of twenty
        let big_requests = ctx.ch.rare(1, 20);
        // knob (one run in six): an agent bound to a wildcard address (either family; destinations of
        // both families are in every pool), an IPv6 address, or loopback — C18: "from the agent's
        // local address", whatever it is
        let local = if ctx.ch.rare(1, 6) {
            ctx.st.inc("probe.unusual_local_address");
            *ctx.ch.pick(&["0.0.0.0:40000".parse::<SocketAddr>().unwrap(), "[::]:40000".parse().unwrap(), "[2001:db8::1]:40000".parse().unwrap(), "127.0.0.1:1".parse().unwrap(), "[::ffff:10.0.0.1]:40000".parse().unwrap()])
        } else {
            SocketAddr::new(std::net::IpAddr::V4(std::net::Ipv4Addr::new(10, 0, 0, 1)), 40000)
        };
        let local_creds = gen_creds(ctx.ch);
        let peer_creds = gen_other_creds(ctx.ch, &local_creds);
        let mut other_creds = gen_other_creds(ctx.ch, &peer_creds);
        if same_hmac_key(&other_creds, &local_creds) || same_hmac_key(&other_creds, &peer_creds) {
            other_creds = Creds::Short("attacker-key".into());
        }
        let max_live = if scale && ctx.ch.rare(1, 10) { ctx.ch.range(250, 320) } else if scale { ctx.ch.range(9, 40) } else { ctx.ch.range(1, if thorough { 8 } else { 4 }) } as usize;
        // simulated clock at the start of the history: 0 in most runs, else a large offset
        // (2^32 ms = 49.7 days, 2^53 ns = 104 days, 10^9 s = 31 years)
        let start = if ctx.ch.rare(1, 6) { *ctx.ch.pick(&[1u64, 4_294_967_296 * MS - 250 * MS, 1u64 << 53, 1_000_000_000 * SEC, 86_400 * SEC]) } else { 0 };
        // knob: the builder's optional remote address (some member of the pool, so that it differs
        // from most destinations); no property lets it influence any transmission
        let remote = if ctx.ch.rare(1, 3) { Some(*ctx.ch.pick(&pool)) } else { None };
        Self {
            shadow: if ctx.cfg.prop == "C07" { Some(new_agent_with(tcp, local, remote)) } else { None },
            shadow_skipped: 0,
            inv_counter: 0,
            stress_done: false,
            owns_clock: false,
            remote,
            agent: new_agent_with(tcp, local, remote),
            model: {
                let mut m = Model::new(tcp, local);
                m.check_prop = ctx.cfg.prop.clone();
                m
            },
            base: anchor(),
            now: start,
            scale,
            huge,
            big_requests,
            pool,
            history: Vec::with_capacity(128),
            local_creds,
            peer_creds,
            other_creds,
            max_live,
            seen_live_max: 0,
            faults: 0,
            extra_tids: vec![0xdead],
            delivered_responses: vec![],
            prop: ctx.cfg.prop.clone(),
            grams: [0, 0],
            via_handle: ctx.ch.rare(1, 5),
            stale_polls: ctx.ch.rare(1, 4),
            pending_after: None,
        }
    }

    fn gram(&mut self, ctx: &mut Ctx, code: u8) {
        let g = ((self.grams[0] as u64) << 16) | ((self.grams[1] as u64) << 8) | code as u64;
        ctx.st.grams.insert(g);
        self.grams = [self.grams[1], code];
    }

    /// The handle through which the previous call was made was asked again after that call; by now
    /// the model has processed that call.  Same rule as a fresh query: gone exactly if completed
    /// (limbo free), else the request's destination.
    fn settle_pending(&mut self, ctx: &mut Ctx) -> ScResult {
        if let Some((tid, after)) = self.pending_after.take() {
            if let Err(mut v) = self.model.check_query_tx(tid, &Reply::Tx(after)) {
                v.site = "kept_handle_after_call".into();
                return Err(self.fail(ctx, v));
            }
        }
        Ok(())
    }

    /// Execute, log, record; library panics become violations of the property under check.
    pub fn call(&mut self, ctx: &mut Ctx, c: Call) -> Result<Reply, Violation> {
        self.settle_pending(ctx)?;
        // through a kept handle?  (only the calls an application would make from inside a callback
        // that holds one: send, poll, handle_stun)
        let c = if self.via_handle && matches!(c, Call::Send { .. } | Call::Poll { .. } | Call::Handle { .. }) && ctx.ch.rare(1, 3) {
            let live: Vec<u128> = self.model.live().map(|t| t.tid).collect();
            let handle = if !live.is_empty() && !ctx.ch.rare(1, 8) { *ctx.ch.pick(&live) } else { self.model.txs.last().map(|t| t.tid).unwrap_or(0xdead) };
            ctx.st.inc("op.call_through_kept_handle");
            Call::Via { handle, inner: Box::new(c) }
        } else {
            c
        };
        let r = exec(&mut self.agent, &c, self.base);
        ev!(ctx, "{} -> {}", call_short(&c), r.short());
        if let Some(v) = panic_violation(&self.prop, &r, &call_short(&c)) {
            return Err(v);
        }
        if let (Call::Via { handle, .. }, Reply::Via { before, after, .. }) = (&c, &r) {
            // before the call: what any handle must report (C18 peer address / C05 bookkeeping)
            if let Err(v) = self.model.check_handle_obs(*handle, *before) {
                return Err(self.fail(ctx, v));
            }
            // (a send that re-uses the handle's own id — possible while that transaction is in limbo —
            // leaves open which of the two transactions the kept handle now speaks for)
            let reuses_own_id = matches!(&c, Call::Via { inner, .. } if matches!(&**inner, Call::Send { spec, .. } if spec.tid == *handle));
            if let (Some(_), Some(a), false) = (before, after, reuses_own_id) {
                self.pending_after = Some((*handle, *a));
            }
        }
        // (polls are compared per instant, as sets, in `poll_at`: which of several transactions due at
        // the same instant is served first is free, and may legitimately depend on bookkeeping that a
        // dropped response touched)
        let (ic, ir): (&Call, &Reply) = match (&c, &r) {
            (Call::Via { inner, .. }, Reply::Via { inner: ri, .. }) => (inner, ri),
            _ => (&c, &r),
        };
        let is_poll = matches!(ic, Call::Poll { .. });
        if let (Some(sh), false) = (self.shadow.as_mut(), is_poll) {
            let dropped = matches!((ic, ir), (Call::Handle { .. }, Reply::Drop | Reply::ParseErr(_)));
            if dropped {
                self.shadow_skipped += 1;
            } else {
                let r2 = exec(sh, &c, self.base);
                if r2 != r {
                    let v = Violation::new("C07", "dropped_responses_change_nothing", call_kind(&c), format!("after {} dropped message(s), `{}` answered {}; a twin agent that was handed the same calls without the dropped messages answered {}", self.shadow_skipped, call_short(&c), r.short(), r2.short()));
                    ev!(ctx, "  !! {} [{}]: {}", v.clause, v.site, v.message);
                    return Err(v);
                }
            }
        }
        let inner_reply = ir.clone();
        self.history.push((c, r));
        Ok(inner_reply)
    }

    /// Queries after every call: outstanding set and validated set (C05, C15, C18).
    pub fn invariants(&mut self, ctx: &mut Ctx) -> ScResult {
        self.settle_pending(ctx)?;
        let mut tids: Vec<u128> = self.model.txs.iter().map(|t| t.tid).collect();
        tids.extend(self.extra_tids.iter().copied());
        tids.sort();
        tids.dedup();
        // With many transactions / peers (scale runs) a full sweep after every call would dominate
        // the run: then every 16th sweep is full (and the last one, in the drain), the others query
        // what the last call touched plus a rotating window, so that every id and address is still
        // queried regularly.  The choice is a function of a counter, not of the PRNG.
        self.inv_counter += 1;
        let full = (tids.len() <= 14 && self.pool.len() <= 14) || self.inv_counter % 16 == 0 || self.model.live_count() == 0;
        let mut pool_sel: Vec<SocketAddr> = self.pool.clone();
        if !full {
            let (mut t_tid, mut t_addr): (Vec<u128>, Vec<SocketAddr>) = (vec![], vec![]);
            if let Some((c, _)) = self.history.last() {
                match c {
                    Call::Send { spec, to, .. } => {
                        t_tid.push(spec.tid);
                        t_addr.push(*to);
                    }
                    Call::Handle { bytes, from } => {
                        t_tid.extend(tid_of(bytes));
                        t_addr.push(*from);
                    }
                    Call::Cancel { tid } | Call::CancelRetrans { tid } | Call::Configure { tid, .. } | Call::QueryTxMut { tid } => t_tid.push(*tid),
                    _ => {}
                }
            }
            let w = self.inv_counter as usize;
            for k in 0..6 {
                if !tids.is_empty() {
                    t_tid.push(tids[(w * 6 + k) % tids.len()]);
                }
                t_addr.push(self.pool[(w * 6 + k) % self.pool.len()]);
            }
            tids.retain(|t| t_tid.contains(t));
            pool_sel.retain(|a| t_addr.contains(a));
        }
        let mut bits = String::new();
        for tid in tids {
            let c = Call::QueryTx { tid };
            let r = exec(&mut self.agent, &c, self.base);
            if let Some(v) = panic_violation(&self.prop, &r, "request_transaction") {
                return Err(v);
            }
            bits.push(if matches!(r, Reply::Tx(Some(_))) { '1' } else { '0' });
            let chk = self.model.check_query_tx(tid, &r);
            self.history.push((c, r));
            if let Err(v) = chk {
                ev!(ctx, "  queries tx={bits} !! {}", v.message);
                return Err(v);
            }
        }
        bits.push('|');
        for addr in pool_sel {
            let c = Call::QueryPeer { addr };
            let r = exec(&mut self.agent, &c, self.base);
            if let Some(v) = panic_violation(&self.prop, &r, "is_validated_peer") {
                return Err(v);
            }
            bits.push(if r == Reply::Peer(true) { '1' } else { '0' });
            let chk = self.model.check_query_peer(addr, &r);
            self.history.push((c, r.clone()));
            if let Err(v) = chk {
                if self.prop != "C15" && v.property == "C15" {
                    // another property is under check: the model follows the agent (so that this
                    // property's own clauses — e.g. C20's replays at the end of the run — stay observable)
                    ctx.st.inc("foreign.C15.validated_set_followed");
                    match r {
                        Reply::Peer(true) => {
                            self.model.validated.insert(addr);
                        }
                        _ => {
                            self.model.validated.remove(&addr);
                        }
                    }
                    continue;
                }
                ev!(ctx, "  queries {bits} !! {}", v.message);
                return Err(v);
            }
        }
        ev!(ctx, "  q {bits}");
        ctx.st.states.insert(self.model.abstract_state());
        let l = self.model.live_count();
        if l > self.seen_live_max {
            self.seen_live_max = l;
        }
        Ok(())
    }

    fn fail(&self, ctx: &mut Ctx, v: Violation) -> Violation {
        ev!(ctx, "  !! {} [{}]: {}", v.clause, v.site, v.message);
        v
    }

    // -------------------------------------------------------------------------------------------
    // operations

    pub fn gen_request(&mut self, ctx: &mut Ctx, tid: u128, sign_bias: u32) -> MsgSpec {
        let big = if ctx.ch.rare(1, 40) { 60000 } else { 0 };
        let mut attrs = gen_attrs(ctx.ch, &self.pool[..self.pool.len().min(8)], &SpecOpts { max_attrs: 3, big });
        // at most one large raw attribute, so that the message fits the 16-bit length field
        let mut seen_big = false;
        attrs.retain(|a| match a {
            TAttr::Raw(_, v) if v.len() > 1000 => {
                let keep = !seen_big;
                seen_big = true;
                keep
            }
            _ => true,
        });
        if self.big_requests && big == 0 && ctx.ch.coin() {
            let l = *ctx.ch.pick(&[2040usize, 2048, 2100, 3000, 4096, 5000]) + ctx.ch.below(4) as usize;
            attrs.retain(|a| !matches!(a, TAttr::Raw(0x7f02, _)));
            attrs.push(TAttr::Raw(0x7f02, ctx.ch.bytes(l)));
            ctx.st.inc("probe.request_of_2KB_or_more");
        }
        // sealing variant: 0 none, 1 FP, 2 SHA1, 3 SHA256, 4 SHA1+FP, 5 SHA256+FP, 6 both, 7 both+FP
        let w = [6u32, 2, sign_bias, sign_bias, sign_bias / 2 + 1, sign_bias / 2 + 1, sign_bias / 2 + 1, sign_bias / 2 + 1];
        if big == 0 && ctx.ch.rare(1, 60) {
            // a request with many attributes in front of its seal (15..40 distinct raw types)
            let n = ctx.ch.range(15, 40);
            attrs = (0..n).map(|i| TAttr::Raw(0x7200 + i as u16, ctx.ch.bytes((i % 4) as usize))).collect();
            ctx.st.inc("probe.request_with_many_attributes");
        }
        let variant = ctx.ch.weighted(&w) as u64;
        let method = *ctx.ch.pick(&[1u16, 3, 0xfff, 0]);
        MsgSpec { class: 0, method, tid, attrs, seals: seals_of(variant, &self.local_creds) }
    }

    /// C18, "carries ... the serialisation of the message handed to send": the oracle's copy of the
    /// bytes comes from the library's own `build()`, so on top of byte equality the bytes are decoded
    /// by the *reference* decoder and must carry the attribute types the application put in, in
    /// order, with the exact value bytes of raw attributes (typed values would need an encoder of
    /// their own, which is C03/C08 territory and not claimed).
    pub fn carries_the_message(&self, ctx: &mut Ctx, spec: &MsgSpec, bytes: &[u8]) -> ScResult {
        let want = spec.handed_in();
        let got: Option<Vec<(u16, Vec<u8>)>> = match refcodec::decode(bytes) {
            Verdict::Accept(view) => Some(view.all.iter().map(|a| (a.ty, a.value(bytes).to_vec())).collect()),
            Verdict::Reject(_) => None,
        };
        let ok = match &got {
            None => false,
            Some(g) => g.len() == want.len() && g.iter().zip(want.iter()).all(|(g, w)| g.0 == w.0 && w.1.as_ref().map_or(true, |v| *v == g.1)),
        };
        if !ok {
            let v = Violation::new("C18", "transmission_carries_the_message", "attribute_types_and_raw_values", format!("the serialisation of {} does not decode (reference decoder) to the attributes handed in: wanted types {:?}, got {:?}", spec.desc(), want.iter().map(|w| w.0).collect::<Vec<_>>(), got.map(|g| g.iter().map(|x| x.0).collect::<Vec<_>>())));
            ev!(ctx, "  !! {}", v.message);
            return Err(v);
        }
        Ok(())
    }

    pub fn fresh_tid(&mut self, ctx: &mut Ctx) -> u128 {
        for _ in 0..20 {
            let t = gen_tid(ctx.ch);
            if !self.model.ever_used(t) && !self.extra_tids.contains(&t) {
                return t;
            }
        }
        // fall back to a counter
        let mut t = 1000u128;
        while self.model.ever_used(t) {
            t += 1;
        }
        t
    }

    pub fn op_send_request(&mut self, ctx: &mut Ctx, sign_bias: u32) -> ScResult {
        if self.huge && self.max_live > 100 && ctx.ch.rare(1, 2) && self.model.live_count() + 60 < self.max_live {
            // an application that starts many transactions at once (ICE check list, server fan-out)
            let n = ctx.ch.range(50, (self.max_live - self.model.live_count()) as u64).min(320);
            ctx.st.inc("op.send_request_burst");
            for i in 0..n {
                self.send_one_request(ctx, sign_bias, 0)?;
                // some of them get their own (short or long) schedule
                if ctx.ch.rare(1, 6) {
                    let tid = self.model.txs.last().unwrap().tid;
                    self.op_configure(ctx, Some(tid))?;
                }
                if i % 64 == 63 {
                    self.invariants(ctx)?;
                }
            }
            if self.model.live_count() > 256 {
                ctx.st.inc("probe.more_than_256_transactions_outstanding");
            }
            return Ok(());
        }
        self.send_one_request(ctx, sign_bias, 1)
    }

    fn send_one_request(&mut self, ctx: &mut Ctx, sign_bias: u32, allow_special: u32) -> ScResult {
        // which id: fresh (0), id still outstanding (1), id of a finished transaction (2)
        let live: Vec<u128> = self.model.live().map(|t| t.tid).collect();
        let done: Vec<u128> = self.model.txs.iter().filter(|t| t.status != Status::Live).map(|t| t.tid).filter(|t| !live.contains(t)).collect();
        let mut kind = if allow_special == 0 { 0 } else { ctx.ch.weighted(&[8, 2, 2]) };
        if kind == 1 && live.is_empty() {
            kind = 0;
        }
        if kind == 2 && done.is_empty() {
            kind = 0;
        }
        if kind != 1 && live.len() >= self.max_live {
            if live.is_empty() {
                return Ok(());
            }
            kind = 1;
        }
        let tid = match kind {
            1 => {
                ctx.st.inc("op.send_duplicate_id");
                self.faults += 1;
                *ctx.ch.pick(&live)
            }
            2 => {
                ctx.st.inc("probe.id_reused_after_completion");
                *ctx.ch.pick(&done)
            }
            _ => self.fresh_tid(ctx),
        };
        let spec = self.gen_request(ctx, tid, sign_bias);
        let to = *ctx.ch.pick(&self.pool);
        // the oracle's copy of the bytes is taken from the builder *before* the agent sees it
        let bytes = spec.build();
        if self.prop == "C18" && bytes.len() < 4096 {
            self.carries_the_message(ctx, &spec, &bytes)?;
        }
        // (from the bytes, not from the description: a builder may decline to seal, e.g. with an
        // empty password)
        let signed = match refcodec::decode(&bytes) {
            Verdict::Accept(v) => v.first_integrity.is_some(),
            Verdict::Reject(_) => spec.signed(),
        };
        self.advance_before_send(ctx);
        let at = self.now;
        ctx.st.inc("op.send_request");
        let r = self.call(ctx, Call::Send { spec, to, at })?;
        if let Err(v) = self.model.on_send_request(tid, to, &bytes, signed, at, &r) {
            return Err(self.fail(ctx, v));
        }
        self.gram(ctx, 0x10 + kind as u8);
        // configure right after send (the use the property describes)
        Ok(())
    }

    /// The application sends whenever it likes, not only at the instant of its last poll: in a third
    /// of the sends the clock has moved on since the previous call (possibly past a wake-up that was
    /// not polled yet).  The instant handed to `send` must not move any other transaction's schedule.
    fn advance_before_send(&mut self, ctx: &mut Ctx) {
        if self.owns_clock && ctx.ch.rare(1, 3) {
            let d = match ctx.ch.below(4) {
                0 => ctx.ch.range(1, 999),
                1 => ctx.ch.range(1, 400) * MS,
                2 => 300 * MS,
                _ => ctx.ch.range(1, 5000) * MS,
            };
            self.now += d;
            ctx.st.inc("op.send_at_later_instant_than_last_call");
        }
    }

    pub fn op_send_other(&mut self, ctx: &mut Ctx) -> ScResult {
        let class = ctx.ch.range(1, 3) as u8;
        // may deliberately reuse the id of an outstanding request: must leave it untouched
        let live: Vec<u128> = self.model.live().map(|t| t.tid).collect();
        let tid = if !live.is_empty() && ctx.ch.rare(1, 3) { *ctx.ch.pick(&live) } else { gen_tid(ctx.ch) };
        let attrs = gen_attrs(ctx.ch, &self.pool, &SpecOpts { max_attrs: 2, big: 0 });
        let variant = ctx.ch.below(8);
        let spec = MsgSpec { class, method: 1, tid, attrs, seals: seals_of(variant, &self.local_creds) };
        let to = *ctx.ch.pick(&self.pool);
        let bytes = spec.build();
        if self.prop == "C18" {
            self.carries_the_message(ctx, &spec, &bytes)?;
        }
        self.advance_before_send(ctx);
        let at = self.now;
        ctx.st.inc("op.send_nonrequest");
        let r = self.call(ctx, Call::Send { spec, to, at })?;
        if let Err(v) = self.model.on_send_other(to, &bytes, at, &r) {
            return Err(self.fail(ctx, v));
        }
        self.gram(ctx, 0x20);
        Ok(())
    }

    fn poll_target(&self) -> u64 {
        if let Some((_, t)) = self.model.last_wait {
            if t > self.now as i128 {
                return t as u64;
            }
        }
        match self.model.min_next() {
            Some(t) => t.max(self.now),
            None => self.now + 10 * MS,
        }
    }

    pub fn poll_at(&mut self, ctx: &mut Ctx, at: u64, class: u8) -> Result<PollOutcome, Violation> {
        // probes
        let due = self.model.live().filter(|t| t.is_due(at)).count();
        if due >= 2 {
            ctx.st.inc("probe.two_due_at_same_poll");
        }
        if self.model.live().any(|t| !t.rc && !t.sc && t.k + 1 < t.intervals_ms.len() && at >= t.next_instant() + t.intervals_ms[t.k + 1] * MS) {
            ctx.st.inc("probe.poll_later_than_two_deadlines");
        }
        self.now = self.now.max(at);
        ctx.st.inc("op.poll");
        let r = self.call(ctx, Call::Poll { at })?;
        if let Reply::Wait(t) = r {
            if t > at as i128 + 3600 * SEC as i128 && self.model.live_count() > 0 {
                ctx.st.inc("probe.wakeup_more_than_3600s_ahead");
            }
        }
        if let Reply::Cancelled(tid) = &r {
            if self.model.ambiguous_cancel(*tid) {
                let q = exec(&mut self.agent, &Call::QueryTx { tid: *tid }, self.base);
                self.model.hint_live_gone = Some(matches!(q, Reply::Tx(None)));
            }
        }
        if let Reply::TimedOut(tid) = &r {
            if self.model.ambiguous_timeout(*tid, at) {
                let q = exec(&mut self.agent, &Call::QueryTx { tid: *tid }, self.base);
                self.model.hint_live_gone = Some(matches!(q, Reply::Tx(None)));
            }
        }
        let first = match self.model.on_poll(at, &r) {
            Ok(o) => {
                match &o {
                    PollOutcome::Wait => ctx.st.inc("out.poll_wait"),
                    PollOutcome::Retransmit(_) => ctx.st.inc("out.retransmit"),
                    PollOutcome::TimedOut(_) => ctx.st.inc("out.timed_out"),
                    PollOutcome::Cancelled(_) => ctx.st.inc("out.cancelled"),
                }
                self.gram(ctx, 0x30 + class * 4 + (r.kind() - 1).min(3));
                o
            }
            Err(v) => return Err(self.fail(ctx, v)),
        };
        if self.shadow.is_some() {
            self.twin_poll(ctx, at, r)?;
        }
        Ok(first)
    }

    /// C07's twin at a poll: both agents are polled at this instant until they answer WaitUntil; the
    /// *sets* of events they produced at this instant and the wake-up they then announce must be equal.
    fn twin_poll(&mut self, ctx: &mut Ctx, at: u64, first: Reply) -> ScResult {
        let key = |r: &Reply| format!("{r:?}");
        let mut main_events: Vec<String> = vec![];
        let mut cur = first;
        let mut n = 0;
        while !matches!(cur, Reply::Wait(_)) {
            main_events.push(key(&cur));
            n += 1;
            if n > 3000 {
                break;
            }
            let r2 = self.call(ctx, Call::Poll { at })?;
            if let Reply::Cancelled(tid) = &r2 {
                if self.model.ambiguous_cancel(*tid) {
                    let q = exec(&mut self.agent, &Call::QueryTx { tid: *tid }, self.base);
                    self.model.hint_live_gone = Some(matches!(q, Reply::Tx(None)));
                }
            }
            if let Reply::TimedOut(tid) = &r2 {
                if self.model.ambiguous_timeout(*tid, at) {
                    let q = exec(&mut self.agent, &Call::QueryTx { tid: *tid }, self.base);
                    self.model.hint_live_gone = Some(matches!(q, Reply::Tx(None)));
                }
            }
            if let Err(v) = self.model.on_poll(at, &r2) {
                return Err(self.fail(ctx, v));
            }
            ctx.st.inc("op.poll");
            cur = r2;
        }
        let mut sh_events: Vec<String> = vec![];
        let mut sh_wait = None;
        let sh = self.shadow.as_mut().unwrap();
        for _ in 0..(n + 3000) {
            match exec(sh, &Call::Poll { at }, self.base) {
                Reply::Wait(t) => {
                    sh_wait = Some(Reply::Wait(t));
                    break;
                }
                e => sh_events.push(key(&e)),
            }
        }
        main_events.sort();
        sh_events.sort();
        let live = self.model.live_count() > 0;
        if main_events != sh_events || (live && Some(&cur) != sh_wait.as_ref() && matches!(cur, Reply::Wait(_))) {
            let v = Violation::new("C07", "dropped_responses_change_nothing", "poll", format!("after {} dropped message(s), polling at +{} until WaitUntil produced {} event(s) and then {}; a twin agent that was handed the same calls without the dropped messages produced {} event(s) and then {}", self.shadow_skipped, fmt_ns(at as i128), main_events.len(), cur.short(), sh_events.len(), sh_wait.map(|w| w.short()).unwrap_or("no WaitUntil".into())));
            ev!(ctx, "  !! {} [{}]: {}", v.clause, v.site, v.message);
            return Err(v);
        }
        Ok(())
    }

    pub fn op_poll(&mut self, ctx: &mut Ctx) -> ScResult {
        let t = self.poll_target();
        // class: 0 exact, 1 early, 2 1ns early, 3 1ns late, 4 late, 5 very late, 6 same instant, 7 tiny step, 8 huge jump
        let class = ctx.ch.weighted(&[10, 5, 3, 3, 5, 3, 3, 2, 1, 1, if self.stale_polls { 2 } else { 0 }]) as u8;
        // (only while nothing is due at the latest instant: then nothing is due at the stale one either
        // and the only admissible answer is the same WaitUntil — an implementation that clamps its
        // clock to the latest instant it has seen and one that does not are indistinguishable here,
        // and no property says which of the two a *due* transaction would be stamped with)
        let nothing_due = self.model.live_count() > 0 && self.model.live().all(|t| !t.rc && !t.sc && t.next_instant() > self.now);
        let class = if class == 10 && !nothing_due { 6 } else { class };
        if class == 10 {
            // a stale clock sample: the application took `now` before some other call that was handed
            // a later instant (a send stamped with a fresh sample, a poll from another code path).
            // C06 quantifies over it: "polling earlier yields no event and the same t".
            let d = match ctx.ch.below(4) {
                0 => 1,
                1 => ctx.ch.range(1, 999),
                2 => ctx.ch.range(1, 50) * MS,
                _ => ctx.ch.range(1, 2000) * MS,
            };
            let at = self.now.saturating_sub(d);
            ctx.st.inc("fault.poll_with_stale_clock_sample");
            self.faults += 1;
            self.poll_at(ctx, at, 1)?;
            return Ok(());
        }
        let at = match class {
            0 => t,
            1 => {
                if t > self.now {
                    self.now + ctx.ch.below(t - self.now)
                } else {
                    self.now
                }
            }
            2 => t.saturating_sub(1),
            3 => t + 1,
            4 => t + ctx.ch.range(1, 3000) * MS,
            5 => t + ctx.ch.range(10, 100) * SEC,
            6 => self.now,
            7 => self.now + ctx.ch.range(1, 1000),
            9 => {
                // late by a power of two of some time unit (plus a little): where elapsed time kept
                // in 32 bits of ns / us / ms, or 53 bits of ns, wraps or loses precision
                let b = *ctx.ch.pick(&[1u64 << 31, 1u64 << 32, (1u64 << 32) * 1000, (1u64 << 31) * MS, (1u64 << 32) * MS, (1u64 << 33) * MS, 1u64 << 53]);
                let d = match ctx.ch.below(4) {
                    0 => 0,
                    1 => ctx.ch.range(1, 400) * MS,
                    2 => ctx.ch.range(1, 999),
                    _ => ctx.ch.range(1, 30) * SEC,
                };
                ctx.st.inc("probe.poll_late_by_power_of_two");
                t + b + d
            }
            _ => t + ctx.ch.range(1, 3) * 3600 * SEC,
        }
        .max(self.now);
        match class {
            1 | 2 => ctx.st.inc("fault.poll_early"),
            3 | 4 => {
                ctx.st.inc("fault.poll_late");
                self.faults += 1
            }
            5 | 8 | 9 => {
                ctx.st.inc("fault.stall_or_clock_jump");
                self.faults += 1
            }
            6 | 7 => ctx.st.inc("fault.poll_repeated"),
            _ => {}
        }
        self.poll_at(ctx, at, class)?;
        Ok(())
    }

    /// Build a response for `tid`; returns (bytes, label).
    pub fn gen_response(&mut self, ctx: &mut Ctx, tid: u128, method: u16, request_signed: bool, kind_w: &[u32; 10]) -> (Vec<u8>, &'static str) {
        let class = if ctx.ch.rare(1, 4) { 3 } else { 2 };
        let mut attrs = vec![];
        if class == 2 {
            attrs.push(TAttr::XorMapped(*ctx.ch.pick(&self.pool)));
        } else {
            attrs.push(TAttr::ErrorCode(*ctx.ch.pick(&[400u16, 401, 438]), "err".into()));
        }
        if ctx.ch.rare(1, 4) {
            attrs.push(TAttr::Software(gen_string(ctx.ch, 5)));
        }
        let kind = ctx.ch.weighted(kind_w);
        let alg = ctx.ch.below(6); // 2..7 of seals_of
        let signed_variant = 2 + alg;
        let mk = |attrs: Vec<TAttr>, seals: Vec<Seal>| MsgSpec { class, method, tid, attrs, seals }.build();
        match kind {
            // genuine: what a well-behaved peer would send
            0 => {
                if request_signed {
                    // a well-behaved peer answers with the algorithm(s) of the request
                    let algs = self.model.txs.iter().rfind(|t| t.tid == tid).map(|t| t.req_algs).unwrap_or((true, false));
                    let fp = ctx.ch.below(2);
                    let variant = match algs {
                        (true, true) => 6 + fp,
                        (false, true) => if fp == 0 { 3 } else { 5 },
                        _ => if fp == 0 { 2 } else { 4 },
                    };
                    (mk(attrs, seals_of(variant, &self.peer_creds)), "genuine_signed")
                } else {
                    let fp = ctx.ch.below(2);
                    (mk(attrs, seals_of(fp, &self.peer_creds)), "genuine_unsigned")
                }
            }
            1 => {
                let fp = ctx.ch.below(2);
                (mk(attrs, seals_of(fp, &self.peer_creds)), "unsigned")
            }
            2 => {
                if ctx.ch.rare(1, 3) {
                    // the right key but a drawn algorithm (possibly not the request's: a bid-down)
                    (mk(attrs, seals_of(signed_variant, &self.peer_creds)), "signed_drawn_algorithm")
                } else {
                    (mk(attrs, seals_of(signed_variant, &self.other_creds)), "signed_other_key")
                }
            }
            3 => (mk(attrs, seals_of(signed_variant, &self.local_creds)), "signed_local_key"),
            4 => {
                // correct MAC, then one bit of it flipped (FINGERPRINT recomputed so that it parses)
                let mut b = mk(attrs, seals_of(signed_variant, &self.peer_creds));
                if let Verdict::Accept(view) = refcodec::decode(&b) {
                    let macs: Vec<_> = view.all.iter().filter(|a| a.ty == refcodec::MI || a.ty == refcodec::MI256).cloned().collect();
                    if !macs.is_empty() {
                        let a = ctx.ch.pick(&macs).clone();
                        let byte = a.off + 4 + ctx.ch.below(a.len as u64) as usize;
                        let bit = ctx.ch.below(8);
                        b[byte] ^= 1 << bit;
                        if view.all.last().map(|x| x.ty) == Some(refcodec::FP) {
                            refcodec::refingerprint(&mut b);
                        }
                    }
                }
                (b, "mac_bit_flipped")
            }
            5 => {
                // signed message whose *payload* was altered after signing (then re-fingerprinted)
                let mut b = mk(attrs, seals_of(signed_variant, &self.peer_creds));
                if b.len() > 28 {
                    // first attribute's value; or (one time in two) any byte before the first integrity
                    // attribute — header included — with a bias to attribute *padding* bytes
                    let mut i = 24 + ctx.ch.below(4) as usize;
                    if ctx.ch.coin() {
                        if let Verdict::Accept(view) = refcodec::decode(&b) {
                            let end = view.first_integrity.map(|fi| view.all[fi].off).unwrap_or(b.len());
                            let mut pads: Vec<usize> = vec![];
                            for a in view.all.iter().filter(|a| a.off < end) {
                                let vend = a.off + 4 + a.len;
                                pads.extend(vend..((vend + 3) & !3));
                            }
                            i = if !pads.is_empty() && ctx.ch.coin() { *ctx.ch.pick(&pads) } else { ctx.ch.below(end.max(1) as u64) as usize };
                            ctx.st.inc("fault.signed_response_altered_anywhere_before_mac");
                        }
                    }
                    b[i] ^= 1 << ctx.ch.below(8);
                    let n = b.len();
                    if b[n - 8..n - 6] == [0x80, 0x28] {
                        refcodec::refingerprint(&mut b);
                    }
                }
                (b, "payload_altered_after_signing")
            }
            6 => {
                // foreign peer: both integrity attributes, exactly one of them wrong
                let mut m = RefMsg::new(class, method, tid);
                m.items.push(RefItem::Attr { ty: 0x8022, value: b"x".to_vec(), pad: 0 });
                let rc = self.peer_creds.reference();
                let which = ctx.ch.below(4);
                let f = Some((ctx.ch.below(16) as usize, 1u8 << ctx.ch.below(8)));
                let (f1, f2) = if which & 1 == 0 { (f, None) } else { (None, f) };
                if which & 2 == 0 {
                    m.items.push(RefItem::Mac1 { creds: rc.clone(), flip: f1 });
                    m.items.push(RefItem::Mac256 { creds: rc, len: 32, flip: f2 });
                } else {
                    m.items.push(RefItem::Mac256 { creds: rc.clone(), len: 32, flip: f1 });
                    m.items.push(RefItem::Mac1 { creds: rc, flip: f2 });
                }
                if ctx.ch.coin() {
                    m.items.push(RefItem::Fp { flip: None });
                }
                (m.encode(), "integrity_pair_one_wrong")
            }
            7 => {
                // foreign peer: truncated SHA-256 MAC (legal per RFC 8489), valid
                let mut m = RefMsg::new(class, method, tid);
                let rc = self.peer_creds.reference();
                let l = *ctx.ch.pick(&[16usize, 20, 24, 28]);
                // one time in three the truncated MAC is corrupted, anywhere including its last bytes
                let flip = if ctx.ch.rare(1, 3) { Some((if ctx.ch.coin() { l - 1 - ctx.ch.below(4) as usize } else { ctx.ch.below(l as u64) as usize }, 1u8 << ctx.ch.below(8))) } else { None };
                m.items.push(RefItem::Mac256 { creds: rc, len: l, flip });
                if ctx.ch.coin() {
                    m.items.push(RefItem::Fp { flip: None });
                }
                (m.encode(), if flip.is_some() { "truncated_sha256_corrupted" } else { "truncated_sha256_valid" })
            }
            8 => {
                // foreign peer / attacker: an integrity attribute whose length is not a legal one
                // (the parser accepts it, validation must fail, the transaction must survive)
                let mut m = RefMsg::new(class, method, tid);
                let (ty, lens): (u16, &[usize]) = if ctx.ch.coin() { (refcodec::MI, &[16, 0, 4, 19, 21, 24, 32]) } else { (refcodec::MI256, &[12, 36, 0, 8, 17, 33, 64]) };
                let l = *ctx.ch.pick(lens);
                if ty == refcodec::MI256 && ctx.ch.coin() {
                    // ... carrying the *correct* HMAC prefix (or the HMAC plus filler): a 32-bit tag
                    // can be guessed; RFC 8489 allows 16..32 bytes in steps of 4 only
                    let l2 = *ctx.ch.pick(&[4usize, 8, 12, 1, 15, 17, 18, 30, 33, 36]);
                    m.items.push(RefItem::Mac256 { creds: self.peer_creds.reference(), len: l2, flip: None });
                } else {
                    m.items.push(RefItem::Attr { ty, value: ctx.ch.bytes(l), pad: 0 });
                }
                if ctx.ch.coin() {
                    m.items.push(RefItem::Fp { flip: None });
                }
                (m.encode(), "malformed_integrity_length")
            }
            _ => {
                // damaged in flight: truncated, the parser must refuse it and nothing may change
                let b = mk(attrs, seals_of(signed_variant, &self.peer_creds));
                let cut = ctx.ch.below(b.len() as u64) as usize;
                (b[..cut].to_vec(), "truncated_in_flight")
            }
        }
    }

    pub fn op_respond(&mut self, ctx: &mut Ctx, kind_w: &[u32; 10]) -> ScResult {
        // target: live (0), finished (1), unknown id (2), replay of an earlier delivered response (3)
        let live: Vec<(u128, bool, SocketAddr)> = self.model.live().map(|t| (t.tid, t.signed, t.dest)).collect();
        let done: Vec<(u128, bool, SocketAddr)> = self.model.txs.iter().filter(|t| t.status != Status::Live).map(|t| (t.tid, t.signed, t.dest)).collect();
        let mut target = ctx.ch.weighted(&[12, 3, 1, 2]);
        if target == 0 && live.is_empty() {
            target = 1;
        }
        if target == 1 && done.is_empty() {
            target = 2;
        }
        if target == 3 && self.delivered_responses.is_empty() {
            target = 2;
        }
        let (bytes, from, label): (Vec<u8>, SocketAddr, &'static str) = match target {
            3 => {
                let i = ctx.ch.below(self.delivered_responses.len() as u64) as usize;
                let (b, f) = self.delivered_responses[i].clone();
                ctx.st.inc("fault.response_replayed");
                self.faults += 1;
                (b, f, "replay_of_delivered")
            }
            2 => {
                let tid = self.fresh_tid(ctx);
                self.extra_tids.push(tid);
                let (b, l) = self.gen_response(ctx, tid, 1, false, kind_w);
                ctx.st.inc("fault.response_unknown_id");
                self.faults += 1;
                (b, *ctx.ch.pick(&self.pool), l)
            }
            k => {
                let (tid, signed, dest) = if k == 0 { *ctx.ch.pick(&live) } else { *ctx.ch.pick(&done) };
                // a response carries its request's method; one time in eight another one (a confused
                // or hostile peer: either verdict, but nothing else may change)
                let req_method = self.model.txs.iter().rfind(|t| t.tid == tid).map(|t| t.method).unwrap_or(1);
                let method = if ctx.ch.rare(1, 8) {
                    ctx.st.inc("fault.response_with_other_method");
                    *ctx.ch.pick(&[1u16, 3, 0xfff, 0])
                } else {
                    req_method
                };
                if k == 1 {
                    ctx.st.inc("fault.response_after_completion");
                    self.faults += 1;
                }
                let (b, l) = self.gen_response(ctx, tid, method, signed, kind_w);
                let from = if ctx.ch.rare(1, 5) {
                    ctx.st.inc("fault.response_from_other_address");
                    *ctx.ch.pick(&self.pool)
                } else {
                    dest
                };
                (b, from, l)
            }
        };
        match label {
            "genuine_signed" | "genuine_unsigned" | "truncated_sha256_valid" | "signed_drawn_algorithm" => ctx.st.inc("op.respond_genuine"),
            "truncated_in_flight" => {
                ctx.st.inc("fault.truncate");
                self.faults += 1
            }
            _ => {
                ctx.st.inc("fault.forged_response");
                self.faults += 1
            }
        }
        if let Some(tid) = tid_of(&bytes) {
            if let Some(i) = self.model.live_idx(tid) {
                if self.model.txs[i].signed && self.model.remote.is_none() {
                    ctx.st.inc("probe.signed_request_no_remote_credentials");
                }
            } else if let Some(t) = self.model.txs.iter().rfind(|t| t.tid == tid) {
                match t.status {
                    Status::TimedOut => ctx.st.inc("probe.response_after_timeout"),
                    Status::Cancelled => ctx.st.inc("probe.response_after_cancel"),
                    Status::Delivered => ctx.st.inc("probe.duplicate_response"),
                    _ => {}
                }
            }
        }
        ev!(ctx, "  (response kind: {label})");
        let r = self.call(ctx, Call::Handle { bytes: bytes.clone(), from })?;
        let now = self.now;
        if let Err(v) = self.model.on_handle(now, &bytes, from, &r, &mut ctx.st) {
            return Err(self.fail(ctx, v));
        }
        match &r {
            Reply::Response(_) => {
                ctx.st.inc("out.delivered");
                self.delivered_responses.push((bytes, from));
            }
            Reply::Drop => {
                ctx.st.inc("out.dropped");
                // C07: a dropped response leaves the transaction outstanding
                if let Some(tid) = tid_of(&bytes) {
                    if self.model.live_idx(tid).map_or(false, |i| !self.model.in_limbo(i)) {
                        let q = self.call(ctx, Call::QueryTx { tid })?;
                        if !matches!(q, Reply::Tx(Some(_))) {
                            // the same observation breaks C05 (gone without having completed) and C07
                            let pr = if self.prop == "C05" { "C05" } else { "C07" };
                            let v = Violation::new(pr, "drop_keeps_transaction_outstanding", label, format!("a response ({label}) for outstanding transaction {tid:#x} was dropped, and the transaction is no longer outstanding afterwards"));
                            return Err(self.fail(ctx, v));
                        }
                    }
                }
            }
            Reply::ParseErr(_) => ctx.st.inc("out.parse_refused"),
            _ => {}
        }
        self.gram(ctx, 0x60 + r.kind());
        Ok(())
    }

    /// An attacker (or a broken peer) floods one outstanding authenticated transaction with 20..300
    /// responses that must all be dropped; nothing about the transaction may change however many
    /// there are (checked by the model after each, and by the timing clauses afterwards).
    pub fn op_flood(&mut self, ctx: &mut Ctx, kind_w: &[u32; 10]) -> ScResult {
        let live: Vec<(u128, SocketAddr)> = self.model.live().filter(|t| t.signed && !t.rc).map(|t| (t.tid, t.dest)).collect();
        if live.is_empty() {
            return Ok(());
        }
        let (tid, dest) = *ctx.ch.pick(&live);
        let n = *ctx.ch.pick(&[20u64, 64, 100, 101, 128, 256, 300]);
        ctx.st.inc("fault.forged_response_flood");
        self.faults += 1;
        let mut w = *kind_w;
        w[0] = 0; // never the genuine one
        w[7] = 0; // nor the valid truncated one
        for i in 0..n {
            let m = self.model.txs.iter().rfind(|t| t.tid == tid).map(|t| t.method).unwrap_or(1);
            let (b, label) = self.gen_response(ctx, tid, m, true, &w);
            if label == "truncated_sha256_valid" || label == "genuine_signed" || label == "signed_drawn_algorithm" {
                continue;
            }
            // a valid response under the *current* remote credentials is not a forgery: skip it
            if let (Some(rc), Verdict::Accept(view)) = (&self.model.remote, refcodec::decode(&b)) {
                let st = refcodec::integrity_status(&b, &view, &rc.reference());
                if st.iter().any(|x| x.2) {
                    continue;
                }
            }
            let from = if ctx.ch.rare(1, 8) { *ctx.ch.pick(&self.pool) } else { dest };
            let r = self.call(ctx, Call::Handle { bytes: b.clone(), from })?;
            let now = self.now;
            if let Err(v) = self.model.on_handle(now, &b, from, &r, &mut ctx.st) {
                return Err(self.fail(ctx, v));
            }
            if i % 16 == 15 || i + 1 == n {
                self.invariants(ctx)?;
            }
            if self.model.live_idx(tid).is_none() {
                break;
            }
        }
        self.gram(ctx, 0x6f);
        Ok(())
    }

    pub fn op_incoming(&mut self, ctx: &mut Ctx) -> ScResult {
        if self.huge && ctx.ch.rare(1, 3) {
            // a burst of requests from many distinct peers (what a server-side agent sees)
            let n = ctx.ch.range(40, 300) as usize;
            let start = ctx.ch.below(self.pool.len() as u64) as usize;
            ctx.st.inc("op.incoming_burst_from_many_peers");
            for i in 0..n {
                let from = self.pool[(start + i) % self.pool.len()];
                let bytes = MsgSpec { class: ctx.ch.below(2) as u8, method: 1, tid: gen_tid(ctx.ch), attrs: vec![], seals: vec![] }.build();
                let r = self.call(ctx, Call::Handle { bytes: bytes.clone(), from })?;
                let now = self.now;
                if let Err(v) = self.model.on_handle(now, &bytes, from, &r, &mut ctx.st) {
                    return Err(self.fail(ctx, v));
                }
                if i % 64 == 63 {
                    self.invariants(ctx)?;
                }
            }
            self.gram(ctx, 0x72);
            return Ok(());
        }
        let class = ctx.ch.below(2) as u8;
        let live: Vec<u128> = self.model.live().map(|t| t.tid).collect();
        let tid = if !live.is_empty() && ctx.ch.rare(1, 3) {
            ctx.st.inc("probe.incoming_request_with_outstanding_id");
            *ctx.ch.pick(&live)
        } else {
            gen_tid(ctx.ch)
        };
        let attrs = gen_attrs(ctx.ch, &self.pool, &SpecOpts { max_attrs: 2, big: 0 });
        let variant = ctx.ch.below(8);
        let c = if ctx.ch.coin() { self.peer_creds.clone() } else { self.other_creds.clone() };
        let bytes = MsgSpec { class, method: 1, tid, attrs, seals: seals_of(variant, &c) }.build();
        let from = *ctx.ch.pick(&self.pool);
        ctx.st.inc("op.incoming");
        let r = self.call(ctx, Call::Handle { bytes: bytes.clone(), from })?;
        let now = self.now;
        if let Err(v) = self.model.on_handle(now, &bytes, from, &r, &mut ctx.st) {
            return Err(self.fail(ctx, v));
        }
        self.gram(ctx, 0x70 + class);
        Ok(())
    }

    fn pick_tid_for_control(&mut self, ctx: &mut Ctx) -> u128 {
        let live: Vec<u128> = self.model.live().map(|t| t.tid).collect();
        if !live.is_empty() && !ctx.ch.rare(1, 8) {
            *ctx.ch.pick(&live)
        } else {
            // finished or unknown id: the handle must not exist
            let all: Vec<u128> = self.model.txs.iter().map(|t| t.tid).chain(self.extra_tids.iter().copied()).collect();
            *ctx.ch.pick(&all)
        }
    }

    pub fn op_cancel(&mut self, ctx: &mut Ctx) -> ScResult {
        let tid = self.pick_tid_for_control(ctx);
        ctx.st.inc("op.cancel");
        self.faults += 1;
        let r = self.call(ctx, Call::Cancel { tid })?;
        if let Err(v) = self.model.on_cancel(tid, &r) {
            return Err(self.fail(ctx, v));
        }
        self.gram(ctx, 0x80);
        Ok(())
    }
    pub fn op_cancel_retrans(&mut self, ctx: &mut Ctx) -> ScResult {
        let tid = self.pick_tid_for_control(ctx);
        ctx.st.inc("op.cancel_retransmissions");
        self.faults += 1;
        let r = self.call(ctx, Call::CancelRetrans { tid })?;
        if let Err(v) = self.model.on_cancel_retrans(tid, &r) {
            return Err(self.fail(ctx, v));
        }
        self.gram(ctx, 0x81);
        Ok(())
    }
    pub fn op_configure(&mut self, ctx: &mut Ctx, tid: Option<u128>) -> ScResult {
        let tid = match tid {
            Some(t) => t,
            None => self.pick_tid_for_control(ctx),
        };
        let rto_ms = ctx.ch.edgy(1, 60_000, &[500, 1, 60_000, 1000, 250]);
        let n = ctx.ch.edgy(0, 8, &[7, 0, 1, 8, 2]) as u32;
        let last_ms = ctx.ch.edgy(0, 60_000, &[8000, 0, 1, 60_000]);
        if let Some(i) = self.model.live_idx(tid) {
            if self.model.txs[i].k > 0 {
                ctx.st.inc("probe.reconfigured_mid_schedule");
            }
        }
        ctx.st.inc("op.configure_timeout");
        let r = self.call(ctx, Call::Configure { tid, rto_ms, n, last_ms })?;
        if let Err(v) = self.model.on_configure(tid, rto_ms, n, last_ms, &r) {
            return Err(self.fail(ctx, v));
        }
        self.gram(ctx, 0x82);
        Ok(())
    }
    pub fn op_set_remote(&mut self, ctx: &mut Ctx) -> ScResult {
        // 0: the peer's true key, 1: some other key (mis-configuration), 2: the local key
        let k = ctx.ch.weighted(&[6, 2, 1]);
        let c = match k {
            0 => self.peer_creds.clone(),
            1 => self.other_creds.clone(),
            _ => self.local_creds.clone(),
        };
        if self.model.live().any(|t| t.signed) {
            ctx.st.inc("probe.remote_credentials_changed_while_signed_outstanding");
        }
        ctx.st.inc("op.set_remote_credentials");
        let r = self.call(ctx, Call::SetRemote(c.clone()))?;
        if r != Reply::Unit {
            return Err(Violation::new("C07", "set_remote", "set_remote_credentials", "unexpected reply".into()));
        }
        self.model.remote = Some(c);
        self.gram(ctx, 0x83);
        Ok(())
    }

    /// Calls that no property allows to change anything: `send_data`, queries through the mutable
    /// handle, getters.  They are recorded in the history (C20 replays them), the mutable handle's
    /// peer address is checked like the read-only one (C18), and the invariants that follow every
    /// operation show that nothing else moved.
    pub fn op_misc(&mut self, ctx: &mut Ctx) -> ScResult {
        if self.scale && !self.stress_done && ctx.ch.rare(1, 6) {
            self.stress_done = true;
            // counter stress: between two adjacent polls exactly 2^8 / 2^16 (+-1) calls that hand out
            // the mutable handle, the last of which shortens a transaction's schedule so that it is
            // due at once — whatever is cached from the first poll must not survive them
            let live: Vec<u128> = self.model.live().filter(|t| !t.sc && !t.rc).map(|t| t.tid).collect();
            if !live.is_empty() {
                let tid = *ctx.ch.pick(&live);
                let n = if ctx.ch.rare(1, 6) { *ctx.ch.pick(&[65_535u64, 65_536, 65_537, 131_071, 131_072]) } else { *ctx.ch.pick(&[255u64, 256, 257, 511, 512]) };
                let now = self.now;
                self.poll_at(ctx, now, 6)?;
                ctx.st.inc("op.exact_count_of_calls_between_polls");
                // alternate the two kinds of call that go through the mutable handle
                let cfg = (ctx.ch.range(200, 60_000), ctx.ch.range(0, 8) as u32, ctx.ch.range(0, 60_000));
                for i in 0..n - 1 {
                    let c = if i % 2 == 0 { Call::Configure { tid, rto_ms: cfg.0, n: cfg.1, last_ms: cfg.2 } } else { Call::QueryTxMut { tid } };
                    let r = exec(&mut self.agent, &c, self.base);
                    if let Some(sh) = self.shadow.as_mut() {
                        let _ = exec(sh, &c, self.base);
                    }
                    let chk = if i % 2 == 0 { self.model.on_configure(tid, cfg.0, cfg.1, cfg.2, &r) } else { self.model.check_query_tx(tid, &r) };
                    if let Err(v) = chk {
                        return Err(self.fail(ctx, v));
                    }
                    self.history.push((c, r));
                }
                if self.model.live_idx(tid).is_some() {
                    let (rto, nn, last) = (1u64, ctx.ch.range(1, 8) as u32, ctx.ch.range(0, 50));
                    let r = self.call(ctx, Call::Configure { tid, rto_ms: rto, n: nn, last_ms: last })?;
                    if let Err(v) = self.model.on_configure(tid, rto, nn, last, &r) {
                        return Err(self.fail(ctx, v));
                    }
                    let at = self.now + ctx.ch.below(3) * MS;
                    self.poll_at(ctx, at, 0)?;
                }
                self.gram(ctx, 0x91);
                return Ok(());
            }
        }
        match ctx.ch.below(3) {
            0 => {
                let n = ctx.ch.range(0, 40) as usize;
                let mut bytes = ctx.ch.bytes(n);
                // sometimes application data that looks like a response to an outstanding request
                if let Some(t) = self.model.live().next() {
                    if ctx.ch.rare(1, 3) {
                        bytes = t.bytes.clone();
                        bytes[0] = 0x01;
                        bytes[1] = 0x01;
                    }
                }
                let to = *ctx.ch.pick(&self.pool);
                ctx.st.inc("op.send_data");
                self.call(ctx, Call::SendData { bytes, to })?;
            }
            1 => {
                let tid = self.pick_tid_for_control(ctx);
                ctx.st.inc("op.query_through_mut_handle");
                let r = self.call(ctx, Call::QueryTxMut { tid })?;
                if let Err(v) = self.model.check_query_tx(tid, &r) {
                    return Err(self.fail(ctx, v));
                }
            }
            _ => {
                ctx.st.inc("op.getters");
                self.call(ctx, Call::Getters)?;
            }
        }
        self.gram(ctx, 0x90);
        Ok(())
    }

    /// Poll at every announced wake-up until no transaction is outstanding (bounded liveness).
    pub fn drain(&mut self, ctx: &mut Ctx) -> ScResult {
        let bound = 40 * self.model.txs.len() as u64 + 60;
        let mut steps = 0u64;
        while self.model.live_count() > 0 {
            steps += 1;
            if steps > bound {
                let v = Violation::new("C05", "completes_within_bound", "drain", format!("{} transaction(s) still outstanding after {bound} polls at the announced wake-ups", self.model.live_count()));
                return Err(self.fail(ctx, v));
            }
            let t = self.poll_target();
            self.poll_at(ctx, t, 0)?;
            self.invariants(ctx)?;
        }
        Ok(())
    }
}

fn response_kind_weights(profile: &str) -> [u32; 10] {
    match profile {
        "forgery" => [10, 5, 6, 4, 6, 4, 3, 3, 4, 1],
        _ => [16, 3, 2, 1, 2, 1, 1, 1, 1, 1],
    }
}

pub fn scenario(ctx: &mut Ctx) -> ScResult {
    let profile = ctx.cfg.profile.clone();
    let thorough = ctx.cfg.thorough;
    let tcp = ctx.ch.rare(1, 4);
    let mut s = AgentSim::new(ctx, tcp);
    s.owns_clock = true;
    ev!(ctx, "agent transport={} local={} builder.remote_addr={:?} pool={:?} max_live={}", if tcp { "tcp" } else { "udp" }, s.model.local, s.remote, s.pool, s.max_live);
    ev!(ctx, "creds local={} peer={} other={}", s.local_creds.short_desc(), s.peer_creds.short_desc(), s.other_creds.short_desc());
    // swarm: disable a random subset of operation kinds for this run
    let mut w = weights(&profile);
    for (i, x) in w.iter_mut().enumerate() {
        if i >= 2 && ctx.ch.rare(1, 6) {
            *x = 0;
        }
    }
    let sign_bias = match profile.as_str() {
        "forgery" => 8,
        "timing" => 1,
        _ => 3,
    };
    let kw = response_kind_weights(&profile);
    let default_cfg = profile == "timing" && ctx.ch.rare(1, 3);
    let cfg_after_send = if profile == "timing" { 3 } else { 1 };
    // remote credentials known from the start in most runs
    if !ctx.ch.rare(1, 4) {
        s.op_set_remote(ctx)?;
    }
    let lc = s.local_creds.clone();
    s.call(ctx, Call::SetLocal(lc))?;
    let n_ops = if s.scale { ctx.ch.range(100, if thorough { 1200 } else { 400 }) } else { ctx.ch.range(5, if thorough { 200 } else { 70 }) };
    for _ in 0..n_ops {
        let op = OPS[ctx.ch.weighted(&w)];
        match op {
            Op::SendReq => {
                let before = s.model.txs.len();
                s.op_send_request(ctx, sign_bias)?;
                s.invariants(ctx)?;
                if s.model.txs.len() > before && !default_cfg && ctx.ch.rare(cfg_after_send, 4) {
                    let tid = s.model.txs.last().unwrap().tid;
                    s.op_configure(ctx, Some(tid))?;
                    s.invariants(ctx)?;
                }
            }
            Op::SendOther => {
                s.op_send_other(ctx)?;
                s.invariants(ctx)?;
            }
            Op::Poll => {
                s.op_poll(ctx)?;
                s.invariants(ctx)?;
            }
            Op::Respond => {
                if ctx.ch.rare(1, if profile == "forgery" { 25 } else { 120 }) {
                    s.op_flood(ctx, &kw)?;
                } else {
                    s.op_respond(ctx, &kw)?;
                }
                s.invariants(ctx)?;
            }
            Op::Incoming => {
                s.op_incoming(ctx)?;
                s.invariants(ctx)?;
            }
            Op::Cancel => {
                s.op_cancel(ctx)?;
                s.invariants(ctx)?;
            }
            Op::CancelRetrans => {
                s.op_cancel_retrans(ctx)?;
                s.invariants(ctx)?;
            }
            Op::Configure => {
                if default_cfg {
                    continue;
                }
                s.op_configure(ctx, None)?;
                s.invariants(ctx)?;
            }
            Op::SetRemote => {
                s.op_set_remote(ctx)?;
                s.invariants(ctx)?;
            }
            Op::Misc => {
                s.op_misc(ctx)?;
                s.invariants(ctx)?;
            }
        }
    }
    s.drain(ctx)?;
    // end of run: every transaction left Live exactly once (the model enforces "once"; here: all done)
    for t in &s.model.txs {
        match t.status {
            Status::Live => unreachable!(),
            Status::Delivered => {}
            Status::TimedOut | Status::Cancelled => {}
        }
    }
    for k in s.model.tolerated.drain(..) {
        ctx.st.inc(k);
    }
    ctx.st.sim_ns += s.now as u128;
    ctx.st.nontrivial = s.seen_live_max >= 2 || s.faults > 0;
    if s.seen_live_max >= 2 {
        ctx.st.inc("probe.concurrent_transactions");
    }
    if ctx.cfg.prop == "C20" {
        replays(ctx, &s, tcp)?;
    }
    Ok(())
}

// ------------------------------------------------------------------------------------------------
// C20: replay the recorded history in four ways and compare replies element by element

fn shift_call(c: &Call) -> Call {
    c.clone()
}

fn replay_on(agent: &mut StunAgent, hist: &[(Call, Reply)], base: Instant) -> Option<(usize, Reply)> {
    for (i, (c, want)) in hist.iter().enumerate() {
        let got = exec(agent, &shift_call(c), base);
        if &got != want {
            return Some((i, got));
        }
    }
    None
}

fn replay_violation(ctx: &mut Ctx, mode: &str, hist: &[(Call, Reply)], i: usize, got: &Reply, extra: &str) -> Violation {
    let (c, want) = &hist[i];
    let v = Violation::new("C20", &format!("replay_{mode}"), call_kind(c), format!("history replayed {mode}{extra}: call #{i} `{}` answered {} in the original run and {} in the replay", call_short(c), want.short(), got.short()));
    ev!(ctx, "  !! {} [{}]: {}", v.clause, v.site, v.message);
    v
}

fn call_kind(c: &Call) -> &'static str {
    match c {
        Call::Send { .. } => "send",
        Call::Poll { .. } => "poll",
        Call::Handle { .. } => "handle_stun",
        Call::Cancel { .. } => "cancel",
        Call::CancelRetrans { .. } => "cancel_retransmissions",
        Call::Configure { .. } => "configure_timeout",
        Call::SetRemote(_) | Call::SetLocal(_) => "set_credentials",
        Call::QueryTx { .. } => "request_transaction",
        Call::QueryPeer { .. } => "is_validated_peer",
        Call::SendData { .. } => "send_data",
        Call::QueryTxMut { .. } => "mut_request_transaction",
        Call::Getters => "getters",
        Call::Via { inner, .. } => call_kind(inner),
    }
}

const SHIFTS_NS: [u64; 9] = [1, 1_000, MS, 999 * MS, SEC, 3600 * SEC, 86_400 * SEC, 1_000_000 * SEC - 1, 1_000_000 * SEC];

fn neighbour_history(ch: &mut Choices, pool: &[SocketAddr]) -> Vec<Call> {
    // a simple unrelated history: a few requests and polls at unrelated instants
    let mut v = vec![];
    let start = *ch.pick(&[0u64, 5 * SEC, 86_000 * SEC, 7_000_000 * SEC]);
    let n = ch.range(2, 8);
    let mut t = start;
    for i in 0..n {
        if i == 0 || ch.rare(1, 3) {
            let spec = MsgSpec { class: 0, method: 1, tid: ch.range(1, 9) as u128, attrs: vec![], seals: vec![] };
            v.push(Call::Send { spec, to: *ch.pick(pool), at: t });
        } else {
            t += ch.range(0, 2000) * MS;
            v.push(Call::Poll { at: t });
        }
    }
    v
}

pub fn replays(ctx: &mut Ctx, s: &AgentSim, tcp: bool) -> ScResult {
    let hist = &s.history;
    let local = s.model.local;
    // (a) another instance, same thread, same instants
    let mut a = new_agent_with(tcp, local, s.remote);
    if let Some((i, got)) = replay_on(&mut a, hist, anchor()) {
        return Err(replay_violation(ctx, "other_instance", hist, i, &got, ""));
    }
    ctx.st.inc("replay.other_instance");
    // (b) every instant shifted by a constant
    let d = *ctx.ch.pick(&SHIFTS_NS);
    let mut b = new_agent_with(tcp, local, s.remote);
    if let Some((i, got)) = replay_on(&mut b, hist, anchor() + Duration::from_nanos(d)) {
        return Err(replay_violation(ctx, "time_shifted", hist, i, &got, &format!(" by {d} ns")));
    }
    ctx.st.inc("replay.time_shifted");
    // (c) on a freshly spawned thread (spawn-run-join: the schedule is still the simulator's)
    let r = std::thread::scope(|sc| sc.spawn(|| {
        let mut c = new_agent_with(tcp, local, s.remote);
        replay_on(&mut c, hist, anchor())
    }).join());
    match r {
        Ok(None) => {}
        Ok(Some((i, got))) => return Err(replay_violation(ctx, "other_thread", hist, i, &got, "")),
        Err(_) => return Err(Violation::new("C20", "replay_other_thread", "panic", "replay thread panicked".into())),
    }
    ctx.st.inc("replay.other_thread");
    // (d) interleaved call by call with unrelated agents at unrelated instants
    let nn = ctx.ch.range(1, 3) as usize;
    let mut neigh: Vec<(StunAgent, Vec<Call>, usize)> = (0..nn)
        .map(|i| {
            let h = neighbour_history(ctx.ch, &s.pool);
            (new_agent(if i % 2 == 0 { tcp } else { !tcp }, local), h, 0usize)
        })
        .collect();
    let mut dd = new_agent_with(tcp, local, s.remote);
    let stride = ctx.ch.range(1, 5) as usize;
    for (i, (c, want)) in hist.iter().enumerate() {
        if i % stride == 0 {
            for (ag, h, pos) in neigh.iter_mut() {
                if *pos < h.len() {
                    let _ = exec(ag, &h[*pos], anchor());
                    *pos += 1;
                }
            }
        }
        let got = exec(&mut dd, c, anchor());
        if &got != want {
            return Err(replay_violation(ctx, "with_neighbours", hist, i, &got, ""));
        }
    }
    ctx.st.inc("replay.with_neighbours");
    // (e) anchored in the process's *real past*: every instant of (the beginning of) the history
    // predates the real moment the agent is built, which is what exposes a stray Instant::now()
    // used as a lower bound.  How far back an Instant can go depends on the machine's uptime.
    let end = hist.iter().filter_map(|(c, _)| match c { Call::Send { at, .. } | Call::Poll { at } => Some(*at), _ => None }).max().unwrap_or(0);
    let real_now = Instant::now();
    let mut back = Duration::from_nanos(end) + Duration::from_secs(1);
    let mut past = real_now.checked_sub(back);
    while past.is_none() && back > Duration::from_millis(1) {
        back /= 2;
        past = real_now.checked_sub(back);
    }
    if let Some(pb) = past {
        let mut e = new_agent_with(tcp, local, s.remote);
        if let Some((i, got)) = replay_on(&mut e, hist, pb) {
            return Err(replay_violation(ctx, "anchored_in_real_past", hist, i, &got, ""));
        }
        ctx.st.inc("replay.anchored_in_real_past");
    }
    // (f) with the thread's tracing subscriber toggled: whether anybody listens to the library's
    // log statements is ambient state too (arguments of log macros are only evaluated when a
    // subscriber wants them).  The batch runner installs a TRACE subscriber for some runs; the replay
    // runs with the opposite setting.
    {
        let outer_on = ctx.tracing_on;
        let r = if outer_on {
            tracing::subscriber::with_default(tracing::subscriber::NoSubscriber::default(), || {
                let mut f = new_agent_with(tcp, local, s.remote);
                replay_on(&mut f, hist, anchor())
            })
        } else {
            crate::pipeline::with_subscriber(|| {
                let mut f = new_agent_with(tcp, local, s.remote);
                replay_on(&mut f, hist, anchor())
            })
        };
        if let Some((i, got)) = r {
            return Err(replay_violation(ctx, "tracing_subscriber_toggled", hist, i, &got, if outer_on { " (original run with a TRACE subscriber, replay without)" } else { " (original run without a subscriber, replay with a TRACE subscriber)" }));
        }
        ctx.st.inc("replay.tracing_subscriber_toggled");
    }
    ctx.st.nontrivial = true;
    Ok(())
}
