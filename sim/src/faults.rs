//! Wire faults applied to a message in flight (DESIGN.md §3.4).  Every fault is drawn from the
//! choice source and counted when it actually fired.

use crate::choices::Choices;
use crate::core::Stats;
use crate::gen::{gen_raw_value, KNOWN_TYPES};
use crate::refcodec::{self, pad4};

pub const FAULT_KINDS: [&str; 18] = [
    "fault.corrupt_bit",
    "fault.corrupt_byte",
    "fault.burst",
    "fault.truncate",
    "fault.extend_garbage",
    "fault.concatenate_next",
    "fault.attr_retype",
    "fault.attr_length_field",
    "fault.attr_resize",
    "fault.attr_duplicate",
    "fault.attr_drop",
    "fault.attr_swap",
    "fault.insert_after_integrity",
    "fault.insert_after_fingerprint",
    "fault.header_length",
    "fault.header_cookie_or_type",
    "fault.checksum_preserving_word_tweak",
    "fault.excess_multiple_of_64k",
];

fn set_len(buf: &mut [u8]) {
    if buf.len() >= 20 {
        let l = (buf.len() - 20) as u16;
        buf[2..4].copy_from_slice(&l.to_be_bytes());
    }
}

fn encode_attr(ty: u16, value: &[u8], pad: u8) -> Vec<u8> {
    let mut v = Vec::with_capacity(4 + pad4(value.len()));
    v.extend_from_slice(&ty.to_be_bytes());
    v.extend_from_slice(&(value.len() as u16).to_be_bytes());
    v.extend_from_slice(value);
    while v.len() % 4 != 0 {
        v.push(pad);
    }
    v
}

/// A burst error: a window of 2..=32 bits whose first and last bit are flipped; interior per `pattern`.
pub fn burst(buf: &mut [u8], bit_off: usize, width: usize, pattern: u32) {
    for i in 0..width {
        let flip = i == 0 || i == width - 1 || (pattern >> (i % 32)) & 1 == 1;
        if flip {
            let b = bit_off + i;
            if b / 8 < buf.len() {
                buf[b / 8] ^= 0x80 >> (b % 8);
            }
        }
    }
}

/// Apply one fault.  `weights` selects among FAULT_KINDS (same order).  Returns the label of the
/// fault that fired ("" if it could not apply).
pub fn apply(ch: &mut Choices, buf: &mut Vec<u8>, next: Option<&[u8]>, weights: &[u32; 18], st: &mut Stats) -> &'static str {
    let k = ch.weighted(weights);
    let n = buf.len();
    let (attrs, _) = if n >= 20 { refcodec::walk(buf, n) } else { (vec![], false) };
    let fired: bool = match k {
        0 => {
            if n == 0 {
                false
            } else {
                let bit = ch.below(n as u64 * 8) as usize;
                buf[bit / 8] ^= 0x80 >> (bit % 8);
                true
            }
        }
        1 => {
            if n == 0 {
                false
            } else {
                let i = ch.below(n as u64) as usize;
                let d = ch.range(1, 255) as u8;
                buf[i] ^= d;
                true
            }
        }
        2 => {
            if n < 5 {
                false
            } else {
                let width = ch.range(2, 32) as usize;
                let off = ch.below((n * 8 - width) as u64 + 1) as usize;
                let pat = match ch.below(4) {
                    0 => u32::MAX,
                    1 => 0xAAAA_AAAA,
                    2 => 0,
                    _ => ch.below(1 << 32) as u32,
                };
                burst(buf, off, width, pat);
                true
            }
        }
        3 => {
            if n == 0 {
                false
            } else {
                let edges = [n as u64 - 1, 0, 1, 19, 20, 21, (n as u64).saturating_sub(4), (n as u64).saturating_sub(8)];
                let cut = (ch.edgy(0, n as u64 - 1, &edges) as usize).min(n - 1);
                buf.truncate(cut);
                true
            }
        }
        4 => {
            let m = ch.range(1, 40) as usize;
            let g = ch.bytes(m);
            buf.extend_from_slice(&g);
            true
        }
        5 => match next {
            Some(nx) if !nx.is_empty() => {
                let whole = ch.coin();
                let k = if whole { nx.len() } else { ch.range(1, nx.len() as u64) as usize };
                buf.extend_from_slice(&nx[..k]);
                true
            }
            _ => false,
        },
        6 => {
            if attrs.is_empty() {
                false
            } else {
                let a = ch.pick(&attrs).clone();
                let ty = if ch.rare(1, 4) { ch.below(1 << 16) as u16 } else { ch.pick(KNOWN_TYPES).0 };
                buf[a.off..a.off + 2].copy_from_slice(&ty.to_be_bytes());
                true
            }
        }
        7 => {
            if attrs.is_empty() {
                false
            } else {
                let a = ch.pick(&attrs).clone();
                let delta = *ch.pick(&[1i64, -1, 2, 3, 4, -4, 8, 20, 0x100, -0x100]);
                // one time in six an absolute value from the top of the 16-bit range (length + 4 does
                // not fit in 16 bits there)
                let nl = if ch.rare(1, 6) { *ch.pick(&[0xffffu16, 0xfffe, 0xfffd, 0xfffc, 0xfffb, 0xfff8, 0x8000, 0x7fff]) } else { (a.len as i64 + delta).clamp(0, 0xffff) as u16 };
                buf[a.off + 2..a.off + 4].copy_from_slice(&nl.to_be_bytes());
                true
            }
        }
        8 => {
            // replace an attribute's value by another of a drawn length (every length 0..=40 and the
            // type's limits +-1 reachable), fixing up the message length
            if attrs.is_empty() {
                false
            } else {
                let a = ch.pick(&attrs).clone();
                let value = if ch.coin() { gen_raw_value(ch, a.ty) } else { let l = ch.below(41) as usize; ch.bytes(l) };
                let pad = if ch.rare(1, 4) { 0xff } else { 0 };
                let enc = encode_attr(a.ty, &value, pad);
                let end = a.off + 4 + pad4(a.len);
                buf.splice(a.off..end, enc);
                if buf.len() - 20 <= 0xffff {
                    set_len(buf);
                }
                true
            }
        }
        9 => {
            if attrs.is_empty() {
                false
            } else {
                let a = ch.pick(&attrs).clone();
                let end = a.off + 4 + pad4(a.len);
                let copy = buf[a.off..end].to_vec();
                let at = ch.pick(&attrs).off;
                buf.splice(at..at, copy);
                if buf.len() - 20 <= 0xffff {
                    set_len(buf);
                }
                true
            }
        }
        10 => {
            if attrs.is_empty() {
                false
            } else {
                let a = ch.pick(&attrs).clone();
                let end = a.off + 4 + pad4(a.len);
                buf.drain(a.off..end);
                set_len(buf);
                true
            }
        }
        11 => {
            if attrs.len() < 2 {
                false
            } else {
                let i = ch.below(attrs.len() as u64 - 1) as usize;
                let a = attrs[i].clone();
                let b = attrs[i + 1].clone();
                let ea = a.off + 4 + pad4(a.len);
                let eb = b.off + 4 + pad4(b.len);
                let mut sw = buf[b.off..eb].to_vec();
                sw.extend_from_slice(&buf[a.off..ea]);
                buf.splice(a.off..eb, sw);
                true
            }
        }
        12 | 13 => {
            let want = if k == 12 { [refcodec::MI, refcodec::MI256] } else { [refcodec::FP, refcodec::FP] };
            match attrs.iter().find(|a| want.contains(&a.ty)) {
                None => false,
                Some(a) => {
                    let end = a.off + 4 + pad4(a.len);
                    let ty = if ch.coin() { ch.pick(KNOWN_TYPES).0 } else { *ch.pick(&[0x7f00u16, 0xff00, refcodec::MI, refcodec::MI256, refcodec::FP]) };
                    let value = gen_raw_value(ch, ty);
                    let enc = encode_attr(ty, &value, 0);
                    buf.splice(end..end, enc);
                    if buf.len() - 20 <= 0xffff {
                        set_len(buf);
                    }
                    // keep a trailing FINGERPRINT valid some of the time so that the parser gets past it
                    if ch.coin() {
                        let (w, tiled) = refcodec::walk(buf, buf.len());
                        if tiled && w.last().map(|x| x.ty == refcodec::FP && x.len == 4).unwrap_or(false) {
                            refcodec::refingerprint(buf);
                        }
                    }
                    true
                }
            }
        }
        14 => {
            if n < 4 {
                false
            } else {
                let cur = ((buf[2] as u16) << 8) | buf[3] as u16;
                // biased to attribute boundaries (a lowered length that still tiles is the nasty case)
                let nl = if !attrs.is_empty() && ch.coin() {
                    let a = ch.pick(&attrs);
                    if ch.coin() {
                        (a.off - 20) as u16
                    } else {
                        (a.off + 4 + pad4(a.len) - 20) as u16
                    }
                } else {
                    let d = *ch.pick(&[4i64, -4, 1, -1, 8, -8, 24, -24, 0x100, 36, -36]);
                    (cur as i64 + d).clamp(0, 0xffff) as u16
                };
                if nl == cur {
                    false
                } else {
                    buf[2..4].copy_from_slice(&nl.to_be_bytes());
                    true
                }
            }
        }
        16 => {
            // damage that weak checksums do not see: consecutive 32-bit words of the body changed by
            // (+d, -d) [sum-preserving], (+d, -2d, +d) [Fletcher-preserving] or the same bit flipped
            // in two words [XOR-preserving].  CRC-32 and HMAC see all of them.
            if n < 20 + 12 {
                false
            } else {
                let words = (n - 20) / 4;
                let kind = ch.below(3);
                let span = if kind == 1 { 3 } else { 2 };
                if words < span {
                    false
                } else {
                    let w0 = ch.below((words - span + 1) as u64) as usize;
                    let d = if ch.coin() { 1u32 } else { ch.range(1, 0xffff) as u32 };
                    let rd = |b: &[u8], w: usize| u32::from_be_bytes([b[20 + 4 * w], b[21 + 4 * w], b[22 + 4 * w], b[23 + 4 * w]]);
                    let wr = |b: &mut [u8], w: usize, v: u32| b[20 + 4 * w..24 + 4 * w].copy_from_slice(&v.to_be_bytes());
                    match kind {
                        0 => {
                            let (a, c) = (rd(buf, w0), rd(buf, w0 + 1));
                            wr(buf, w0, a.wrapping_add(d));
                            wr(buf, w0 + 1, c.wrapping_sub(d));
                        }
                        1 => {
                            let (a, c, e) = (rd(buf, w0), rd(buf, w0 + 1), rd(buf, w0 + 2));
                            wr(buf, w0, a.wrapping_add(d));
                            wr(buf, w0 + 1, c.wrapping_sub(d.wrapping_mul(2)));
                            wr(buf, w0 + 2, e.wrapping_add(d));
                        }
                        _ => {
                            let bit = 1u32 << ch.below(32);
                            let (a, c) = (rd(buf, w0), rd(buf, w0 + 1));
                            wr(buf, w0, a ^ bit);
                            wr(buf, w0 + 1, c ^ bit);
                        }
                    }
                    true
                }
            }
        }
        17 => {
            // a stream read / jumbo datagram that carries exactly 65536 (or 131072) bytes more than
            // the message declares: sizes that collide with the declared one in 16-bit arithmetic.
            // The excess is itself a well-formed run of attributes (what the next messages' bodies
            // could look like), so that interpreting it would go unnoticed.
            if n < 20 || n > 5000 {
                false
            } else {
                let k = if ch.rare(1, 4) { 2 } else { 1 };
                let unit = encode_attr(0x8022, b"xxxx", 0);
                for _ in 0..(k * 65536 / unit.len()) {
                    buf.extend_from_slice(&unit);
                }
                true
            }
        }
        _ => {
            if n < 8 {
                false
            } else {
                match ch.below(3) {
                    0 => buf[0] ^= *ch.pick(&[0x80u8, 0x40, 0xc0]),
                    1 => {
                        let i = 4 + ch.below(4) as usize;
                        buf[i] ^= 1 << ch.below(8);
                    }
                    _ => {
                        // class / method bits
                        let bit = ch.below(14) as usize;
                        let t = (((buf[0] as u16) << 8) | buf[1] as u16) ^ (1 << bit);
                        buf[0..2].copy_from_slice(&t.to_be_bytes());
                    }
                }
                true
            }
        }
    };
    if fired {
        st.inc(FAULT_KINDS[k]);
        FAULT_KINDS[k]
    } else {
        ""
    }
}

pub fn weights(profile: &str) -> [u32; 18] {
    match profile {
        // structure-aware damage dominates
        "hostile" => [3, 3, 2, 3, 2, 3, 6, 6, 8, 4, 3, 4, 6, 6, 6, 3, 2, 1],
        // plain link noise
        "noise" => [10, 6, 6, 6, 3, 6, 0, 0, 0, 0, 0, 0, 0, 0, 2, 2, 2, 0],
        _ => [6, 4, 4, 5, 3, 5, 3, 4, 4, 2, 2, 2, 4, 4, 5, 3, 3, 1],
    }
}
