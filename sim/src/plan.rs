//! Which scenarios, profiles and run counts decide which property (DESIGN.md §5).

use crate::core::ScenarioFn;

pub struct Batch {
    pub scenario: &'static str,
    pub profile: &'static str,
    pub runs: u64,
}

pub struct Plan {
    pub level: &'static str,
    pub batches: Vec<Batch>,
    pub rule: &'static str,
    pub assumptions: Vec<&'static str>,
    pub required_probes: Vec<&'static str>,
    pub real: Vec<&'static str>,
    pub simulated: Vec<&'static str>,
    pub reference: Vec<&'static str>,
}

pub fn scenario_fn(name: &str) -> Option<ScenarioFn> {
    Some(match name {
        "agent" => crate::sc_agent::scenario,
        "wire" => crate::sc_wire::scenario,
        _ => return None,
    })
}

/// (scenario, profile, property) triples covered by the determinism self-test.
pub fn all_scenarios() -> Vec<(&'static str, &'static str, &'static str)> {
    vec![("agent", "balanced", "C05"), ("agent", "timing", "C06"), ("agent", "forgery", "C07"), ("agent", "balanced", "C20")]
}

const A_MONO: &str = "instants passed to one agent never decrease from call to call";
const A_MS: &str = "configure_timeout arguments are whole milliseconds with rto 1..=60000 ms, retransmits 0..=8, last timeout 0..=60000 ms";
const A_FIT: &str = "messages handed to the agent or built by the builder fit the 16-bit length field";
const A_MID: &str = "a configure_timeout issued in the middle of a schedule keeps the count of retransmissions already made";
const A_HASH: &str = "the SHA-1, SHA-256 and MD5 compression functions (RustCrypto) are correct; HMAC, key derivation and CRC-32 are re-implemented in the harness";
const A_APP: &str = "simulated applications, network, attacker and clock are harness code; StunAgent, TcpBuffer and all of stun-types run the real code of /repo's working tree";

const REAL_AGENT: [&str; 3] = ["stun_proto::agent::StunAgent (send, poll, handle_stun, cancel, cancel_retransmissions, configure_timeout, credentials, queries)", "stun_types::message::{MessageBuilder, Message::from_bytes, validate_integrity}", "stun_types::attribute::* writers"];
const SIM_AGENT: [&str; 4] = ["clock (nanosecond offsets from one anchor Instant)", "application driving the agent (seeded operation mix)", "peer / attacker producing genuine, forged, replayed, truncated responses", "poll scheduler (exact, early, late, stalled, clock jump)"];
const REF_AGENT: [&str; 2] = ["transaction model (sim/src/model_tx.rs)", "reference codec: HMAC/CRC/TLV walk (sim/src/refcodec.rs)"];

const RULE_AGENT: &str = "each evaluation is one seeded history of 5..70 (thorough 5..200) agent calls plus the drain to quiescence, checked against the transaction model after every call; a run is non-trivial when it had >=2 transactions outstanding at once or at least one fired fault (late/stalled poll, forged/replayed/duplicate/unknown response, truncation, duplicate id, cancel); distinct = distinct FNV-1a hash of the full event log (every call, reply, simulated instant and query result)";

fn agent_plan(profile: &'static str, quick: u64, thorough_runs: u64, thorough: bool, probes: Vec<&'static str>) -> Plan {
    Plan {
        level: "exploration",
        batches: vec![Batch { scenario: "agent", profile, runs: if thorough { thorough_runs } else { quick } }],
        rule: RULE_AGENT,
        assumptions: vec![A_MONO, A_MS, A_FIT, A_MID, A_HASH, A_APP],
        required_probes: probes,
        real: REAL_AGENT.to_vec(),
        simulated: SIM_AGENT.to_vec(),
        reference: REF_AGENT.to_vec(),
    }
}

pub fn plan(prop: &str, thorough: bool) -> Option<Plan> {
    Some(match prop {
        "C05" => agent_plan("balanced", 150_000, 4_000_000, thorough, vec!["probe.two_due_at_same_poll", "probe.response_after_timeout", "probe.response_after_cancel", "probe.duplicate_response", "probe.id_reused_after_completion", "probe.response_after_cancel_before_report"]),
        "C06" => agent_plan("timing", 150_000, 4_000_000, thorough, vec!["probe.two_due_at_same_poll", "probe.poll_later_than_two_deadlines", "probe.wakeup_more_than_3600s_ahead", "probe.reconfigured_mid_schedule"]),
        "C07" => agent_plan("forgery", 150_000, 4_000_000, thorough, vec!["probe.signed_request_no_remote_credentials", "probe.remote_credentials_changed_while_signed_outstanding", "probe.mixed_integrity_pair"]),
        "C15" => agent_plan("balanced", 150_000, 4_000_000, thorough, vec!["probe.incoming_request_with_outstanding_id"]),
        "C18" => agent_plan("balanced", 150_000, 4_000_000, thorough, vec!["probe.two_due_at_same_poll", "probe.poll_later_than_two_deadlines"]),
        "C20" => agent_plan("balanced", 60_000, 1_500_000, thorough, vec!["probe.two_due_at_same_poll"]),
        _ => return None,
    })
}
