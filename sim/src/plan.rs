//! Which scenarios, profiles and run counts decide which property (DESIGN.md §5).

use crate::core::ScenarioFn;

pub struct Batch {
    pub scenario: &'static str,
    pub profile: &'static str,
    pub runs: u64,
}

pub struct Plan {
    pub level: &'static str,
    pub batches: Vec<Batch>,
    pub rule: &'static str,
    pub assumptions: Vec<&'static str>,
    pub required_probes: Vec<&'static str>,
    pub real: Vec<&'static str>,
    pub simulated: Vec<&'static str>,
    pub reference: Vec<&'static str>,
}

pub fn scenario_fn(name: &str) -> Option<ScenarioFn> {
    Some(match name {
        "agent" => crate::sc_agent::scenario,
        "wire" => crate::sc_wire::scenario,
        "world" => crate::sc_world::scenario,
        "cut" => crate::sc_codec::scenario_cut,
        "crc" => crate::sc_codec::scenario_crc,
        "tamper" => crate::sc_codec::scenario_tamper,
        "tailsplice" => crate::sc_codec::scenario_tailsplice,
        "tcpstream" => crate::sc_tcpstream::scenario,
        _ => return None,
    })
}

/// (scenario, profile, property) triples covered by the determinism self-test.
pub fn all_scenarios() -> Vec<(&'static str, &'static str, &'static str)> {
    vec![
        ("agent", "balanced", "C05"),
        ("agent", "timing", "C06"),
        ("agent", "forgery", "C07"),
        ("agent", "balanced", "C20"),
        ("world", "hostile", "C05"),
        ("world", "forgery", "C07"),
        ("world", "calm", "C06"),
        ("wire", "baseline", "C02"),
        ("wire", "faults", "C02"),
        ("wire", "hostile", "C01"),
        ("cut", "default", "C17"),
        ("crc", "default", "C09"),
        ("tamper", "default", "C04"),
        ("tailsplice", "default", "C10"),
        ("tcpstream", "random", "C14"),
        ("tcpstream", "sweep", "C14"),
        ("tcpstream", "backlog", "C14"),
    ]
    // ("tcpstream", "lifetime") is deterministic by construction but costs seconds per run: it is
    // left out of the determinism self-test's sample
}

const A_MONO: &str = "instants passed to one agent never decrease from call to call, except that while nothing is due some polls carry an instant up to 2 s earlier than the latest one (stale clock sample), for which the only admissible answer is the same WaitUntil";
const A_MS: &str = "configure_timeout arguments are whole milliseconds with rto 1..=60000 ms, retransmits 0..=8, last timeout 0..=60000 ms";
const A_FIT: &str = "messages handed to the agent or built by the builder fit the 16-bit length field";
const A_MID: &str = "a configure_timeout issued in the middle of a schedule keeps the count of retransmissions already made";
const A_HASH: &str = "the SHA-1, SHA-256 and MD5 compression functions (RustCrypto) are correct; HMAC, key derivation and CRC-32 are re-implemented in the harness";
const A_APP: &str = "simulated applications, network, attacker and clock are harness code; StunAgent, TcpBuffer and all of stun-types run the real code of /repo's working tree";

const REAL_AGENT: [&str; 3] = ["stun_proto::agent::StunAgent (send, poll, handle_stun, cancel, cancel_retransmissions, configure_timeout, credentials, queries)", "stun_types::message::{MessageBuilder, Message::from_bytes, validate_integrity}", "stun_types::attribute::* writers"];
const SIM_AGENT: [&str; 4] = ["clock (nanosecond offsets from one anchor Instant)", "application driving the agent (seeded operation mix)", "peer / attacker producing genuine, forged, replayed, truncated responses", "poll scheduler (exact, early, late, stalled, clock jump)"];
const REF_AGENT: [&str; 2] = ["transaction model (sim/src/model_tx.rs)", "reference codec: HMAC/CRC/TLV walk (sim/src/refcodec.rs)"];

const RULE_AGENT: &str = "batch `agent`: each evaluation is one seeded history of 5..70 (thorough 5..200) agent calls plus the drain to quiescence, checked against the transaction model after every call; one run in 25 is a scale run (100..400 calls, thorough up to 1200; 9..40, one time in ten 250..320, concurrent transactions; 12..48, one time in eight about 330, peers; bursts of sends and of incoming requests; floods of 20..300 forged responses; exactly 2^8 / 2^16 (+-1) state-changing calls between two adjacent polls; with many transactions or peers the per-call query sweep covers what the call touched plus a rotating window, and every 16th sweep everything); one run in six starts its clock at 1 ns, 2^32 ms, 2^53 ns, 10^9 s or one day; one run in 20 has a TRACE-level tracing subscriber installed; when checking C07 a twin agent is handed every call except the dropped responses and must answer identically; a run is non-trivial when it had >=2 transactions outstanding at once or at least one fired fault (late/stalled poll, forged/replayed/duplicate/unknown response, truncation, duplicate id, cancel); distinct = distinct FNV-1a hash of the full event log (every call, reply, simulated instant and query result). Batches `world`: each evaluation is one discrete-event run of 1..3 clients (real StunAgents, one transaction model each), a server running stund.rs's logic on real library code, an attacker, UDP links (drop, duplicate, delay/reorder, corrupt, truncate, coalesce, NAT, partition/heal) and RFC 4571-framed TCP streams through real TcpBuffers (segmentation, stalls, connection cut); faults stop at a drawn quiescence time, after which every transaction must complete within its schedule; profile `calm` is the same world without network faults or attacker. Round 5: the server's agents (responder role) are judged by a server-side ledger after every delivery - validated-peer set = the source addresses whose delivery was answered IncomingStun/StunResponse (addresses seen only through refused or dropped traffic included: NAT rebinding gives the server such addresses, and the attacker sends it forged and replayed response-class messages), an answer handed to the server agent's send comes back as one transmission with build()'s bytes from the server to the requester, nothing is ever outstanding and poll reports no event. Round 4 knobs of the `agent` batch: in one run of five a third of the send / poll / handle_stun calls are made through a kept StunRequestMut handle (its peer_address() read before and after); in one run of four, while nothing is due, some polls carry an instant up to 2 s earlier than the latest one handed in; in one run of six the agent is bound to a wildcard, IPv6, IPv4-mapped or loopback address; builders are handed to send as built, cloned or after into_owned(); one message description in five is assembled with refused builder operations interleaved";

fn agent_plan(profile: &'static str, quick: u64, thorough_runs: u64, thorough: bool, probes: Vec<&'static str>) -> Plan {
    let world_profile = if profile == "forgery" { "forgery" } else { "hostile" };
    Plan {
        level: "exploration",
        batches: vec![
            Batch { scenario: "agent", profile, runs: if thorough { thorough_runs } else { quick } },
            // end to end: clients, server (stund.rs logic), attacker, faulty UDP links and framed TCP streams
            Batch { scenario: "world", profile: world_profile, runs: if thorough { thorough_runs / 5 } else { quick / 5 } },
            // the same world without network faults or attacker (a relaxation made for faults must not hide an ordinary bug)
            Batch { scenario: "world", profile: "calm", runs: if thorough { thorough_runs / 20 } else { quick / 20 } },
        ],
        rule: RULE_AGENT,
        assumptions: vec![A_MONO, A_MS, A_FIT, A_MID, A_HASH, A_APP],
        required_probes: probes,
        real: REAL_AGENT.to_vec(),
        simulated: SIM_AGENT.to_vec(),
        reference: REF_AGENT.to_vec(),
    }
}

pub fn plan(prop: &str, thorough: bool) -> Option<Plan> {
    Some(match prop {
        "C05" => agent_plan("balanced", 300_000, 8_000_000, thorough, vec!["probe.two_due_at_same_poll", "probe.response_after_timeout", "probe.response_after_cancel", "probe.duplicate_response", "probe.id_reused_after_completion", "probe.response_after_cancel_before_report"]),
        "C06" => agent_plan("timing", 300_000, 8_000_000, thorough, vec!["probe.two_due_at_same_poll", "probe.poll_later_than_two_deadlines", "probe.wakeup_more_than_3600s_ahead", "probe.reconfigured_mid_schedule", "fault.poll_with_stale_clock_sample", "op.call_through_kept_handle"]),
        "C07" => agent_plan("forgery", 300_000, 8_000_000, thorough, vec!["probe.signed_request_no_remote_credentials", "probe.remote_credentials_changed_while_signed_outstanding", "probe.mixed_integrity_pair", "fault.signed_response_altered_anywhere_before_mac"]),
        "C15" => agent_plan("balanced", 300_000, 8_000_000, thorough, vec!["probe.incoming_request_with_outstanding_id"]),
        "C18" => agent_plan("balanced", 300_000, 8_000_000, thorough, vec!["probe.two_due_at_same_poll", "probe.poll_later_than_two_deadlines", "op.call_through_kept_handle", "probe.unusual_local_address"]),
        "C20" => {
            // the replays need a single recorded call history: agent scenario only
            let mut p = agent_plan("balanced", 60_000, 1_200_000, thorough, vec!["probe.two_due_at_same_poll"]);
            p.batches.truncate(1);
            p
        }
        "C01" => codec_plan(
            "exploration",
            vec![b("wire", "hostile", 500_000, 8_000_000, thorough), b("wire", "faults", 250_000, 4_000_000, thorough), b("wire", "baseline", 80_000, 1_000_000, thorough), b("wire", "bigbuf", 4_000, 80_000, thorough)],
            "each evaluation is one simulated delivery sequence: 1..4 messages from the library builder or the foreign peer (strings up to 1100 multi-byte characters, raw attributes of 0..8 B, 255 B..4 KB or 60 KB, registered-but-unimplemented attribute types, embedded signed STUN messages, one message in 40 with 31..300 attributes), 0..4 wire faults each (bit/byte/burst corruption, checksum-preserving word tweaks, an excess of exactly 64 KiB, truncation, garbage or next-message concatenation, attribute re-type/resize/duplicate/drop/swap, insertion after integrity/fingerprint, header damage), every delivery run through the full receive pipeline (MessageType/MessageHeader/Message::from_bytes, RawAttribute::from_bytes at body offsets, all 19 typed decoders, iteration, lookups, validate_integrity under two keys, check_attribute_types on requests and non-requests with drawn sets + rebuild, Display/Debug; tracing subscriber installed in 1/4 of runs) under catch_unwind and a 20 s watchdog; non-trivial = at least one fault fired or the message has attributes; distinct = distinct event-log hash",
            vec!["probe.delivery_shorter_than_2_bytes", "probe.policing_non_request", "probe.tracing_subscriber_installed", "probe.delivery_longer_than_16bit_message", "probe.buffer_longer_than_declared_length"],
        ),
        "C02" => codec_plan(
            "exploration",
            vec![b("wire", "baseline", 250_000, 3_000_000, thorough), b("wire", "faults", 500_000, 8_000_000, thorough), b("wire", "hostile", 400_000, 6_000_000, thorough), b("tailsplice", "default", 150_000, 2_000_000, thorough), b("wire", "bigbuf", 2_000, 40_000, thorough)],
            "each evaluation is one simulated delivery sequence (see C01) whose every delivery is judged by the differential oracle: accept <=> reference decoder accepts (over-long buffers: refusal, or behaviour identical to the buffer cut to its declared length); on reject the named cause must be one of the defects present (byte counts where the property pins them); on accept class, method, transaction id, the exposed attribute sequence and first-match lookups must equal the reference view; fault-free (baseline) and fault-injecting profiles are separate batches; non-trivial = at least one fault fired or the message has attributes; distinct = distinct event-log hash",
            vec!["probe.buffer_longer_than_declared_length", "probe.both_integrity_attributes_and_fingerprint"],
        ),
        "C04" => codec_plan(
            "fault_enumeration",
            vec![b("tamper", "default", 100_000, 1_500_000, thorough)],
            "each run samples one sealed message (library builder: SHA-1 / SHA-256 / both, +-fingerprint; foreign peer: every legal tail incl. truncated SHA-256 MACs and SHA-256-before-SHA-1) and one key (short- or long-term over arbitrary UTF-8), then enumerates EVERY single-bit flip from byte 0 to the end of the integrity attribute that validation reports, plus sampled byte substitutions, six other keys, the no-integrity case and a one-wrong-of-two pair; evaluations = mutants + key trials judged; every mutant is non-trivial (a damaged or mis-keyed message); distinct counts sampled messages (each mutant of a message is distinct by construction)",
            vec![],
        ),
        "C09" => codec_plan(
            "fault_enumeration",
            vec![b("crc", "default", 25_000, 120_000, thorough)],
            "each run samples one fingerprinted message (library builder or foreign peer, with and without integrity attributes) and enumerates EVERY single-bit flip, every burst of width 2..=32 at every bit offset (4 interior patterns) for messages <= 48 B (thorough <= 256 B; sampled above), every single-byte substitution for messages <= 32 B (thorough <= 64 B; sampled above); each mutant is judged against the reference decoder and by the direct clause (a tolerant walk of the whole buffer still ends in FINGERPRINT => must be rejected); evaluations = mutants judged; every mutant is non-trivial; distinct counts sampled messages",
            vec!["probe.corruption_left_fingerprint_in_place", "probe.corruption_dissolved_fingerprint"],
        ),
        "C10" => codec_plan(
            "exploration",
            vec![b("tailsplice", "default", 1_200_000, 20_000_000, thorough), b("wire", "baseline", 150_000, 2_000_000, thorough), b("wire", "bigbuf", 2_000, 40_000, thorough)],
            "each run: (1) a foreign-peer message with 0..4 ordinary attributes and a drawn order/subset of {MI, MI-SHA256 (16..32 B), FP} with right or wrong MACs (sometimes an ordinary attribute smuggled in after the integrity attribute); (2) a library-built signed message whose bytes after the first integrity attribute are replaced four times by an on-path attacker (re-fingerprinted); every accepted buffer's iteration and lookups are compared with the reference exposure list, FINGERPRINT must be exposed whenever present, the attribute validate_integrity reports must be exposed, and the exposed prefix must be identical before and after the rewrite; evaluations = buffers judged; non-trivial = all (each has a tail or a rewrite); distinct = distinct buffers by hash",
            vec!["probe.validate_integrity_ok", "probe.policing_with_hidden_attribute"],
        ),
        "C14" => codec_plan(
            "exploration",
            vec![b("tcpstream", "random", 200_000, 6_000_000, thorough), b("tcpstream", "sweep", 15_000, 200_000, thorough), b("tcpstream", "backlog", 48, 600, thorough), b("tcpstream", "lifetime", 1, 8, thorough)],
            "backlog profile: the reader falls behind - 300..131 075 tiny complete frames (mostly empty) wait in one TcpBuffer at once (three runs in ten cross 65 535/65 536/65 537 waiting frames), pushed at once / in chunks of up to 4 KB / in halves / two bytes at a time, occasional pulls meanwhile, then drained against the frame model; random profile also: one connection in 24 carries a train of 40..1500 tiny frames; lifetime profile: one long-lived connection per evaluation, more than 2^32 bytes (65 600 maximum-size frames) through a single TcpBuffer with chunking variations along the way and densely around the 2^31/2^32 cumulative-byte marks; random profile: 1..3 connections one after the other (the previous buffer dropped, possibly with unread bytes), each one stream of 1..6 frames (lengths 0..3, around 255/256, up to 65535; payloads that look like length prefixes) cut into segments (1-byte, all at once, 1..3 bytes, random) with push/pull interleavings (pull before data, drain after each push, random pulls, single pull per push, drain only at the end, repeated pulls on an incomplete frame) and an optional connection cut, every pull compared with the frame model; sweep profile: for each drawn stream of <= 3 frames and <= 12 bytes ALL 2^(n-1) segmentations x {drain after each push, drain at end} (evaluations counts each pattern); non-trivial = >= 2 segments or >= 2 frames; distinct = distinct event-log hash / distinct swept stream",
            vec!["fault.empty_push", "probe.backlog_of_65536_or_more_complete_frames"],
        ),
        "C17" => codec_plan(
            "fault_enumeration",
            vec![b("cut", "default", 300_000, 5_000_000, thorough)],
            "each run samples one well-formed message (library builder or foreign peer, all sealing variants, 20 B .. 65 KB) and enumerates EVERY cut point 0..len(m) (connection cut / short read), each of the 160 header bits flipped for the header-decoder clause, then reassembles a sequence of 1..4 messages from a randomly segmented stream using only MessageHeader::from_bytes and the Truncated{expected} report; evaluations = cut points + header variants judged; every strict prefix is non-trivial; distinct counts sampled messages",
            vec![],
        ),
        _ => return None,
    })
}

fn b(scenario: &'static str, profile: &'static str, quick: u64, thorough_runs: u64, thorough: bool) -> Batch {
    Batch { scenario, profile, runs: if thorough { thorough_runs } else { quick } }
}

fn codec_plan(level: &'static str, batches: Vec<Batch>, rule: &'static str, probes: Vec<&'static str>) -> Plan {
    Plan {
        level,
        batches,
        rule,
        assumptions: vec![A_FIT, A_HASH, A_APP, "the reference decoder/encoder (sim/src/refcodec.rs, written from RFC 8489 and the property text) is the oracle; it is cross-checked against RFC 5769 vectors and CRC/HMAC known-answer tests (cargo test in sim/)"],
        required_probes: probes,
        real: vec!["stun_types::message::{Message::from_bytes, MessageHeader::from_bytes, MessageType::from_bytes, MessageBuilder, validate_integrity, check_attribute_types, iteration and lookups}", "stun_types::attribute::{RawAttribute::from_bytes, all 19 typed decoders, Display/Debug}", "stun_proto::agent::TcpBuffer (C14)"],
        simulated: vec!["senders (library builder driven by the harness generator; foreign peer = reference encoder)", "link faults / on-path attacker / stream segmentation / connection cut", "receiver application running the receive pipeline"],
        reference: vec!["reference codec (sim/src/refcodec.rs): TLV walk, ordering rules, exposure rule, CRC-32, HMAC-SHA1/SHA256, key derivation", "frame model (sim/src/sc_tcpstream.rs)"],
    }
}

