//! Concrete calls on a real `StunAgent` and their canonicalised replies.  `exec` is the only place
//! where scenario code touches the agent, so a recorded `Vec<(Call, Reply)>` is a complete,
//! replayable history (used by the transaction model and by C20's replays).

use crate::core::{guard, Guarded};
use crate::gen::{Creds, MsgSpec};
use std::net::SocketAddr;
use std::sync::OnceLock;
use std::time::{Duration, Instant};
use stun_proto::agent::{HandleStunReply, StunAgent, StunAgentPollRet};
use stun_types::message::{Message, MessageClass, TransactionId};
use stun_types::prelude::*;
use stun_types::TransportType;

/// The one real clock read of the process.  Every instant handed to the library is
/// `anchor + shift + offset`; every instant received back is converted to an offset.
pub fn anchor() -> Instant {
    static A: OnceLock<Instant> = OnceLock::new();
    // leave room below the anchor: neighbours in C20 may live "in the past"
    *A.get_or_init(|| Instant::now() + Duration::from_secs(86_400))
}

#[derive(Clone, Debug, PartialEq)]
pub enum Call {
    Send { spec: MsgSpec, to: SocketAddr, at: u64 },
    Poll { at: u64 },
    Handle { bytes: Vec<u8>, from: SocketAddr },
    Cancel { tid: u128 },
    CancelRetrans { tid: u128 },
    Configure { tid: u128, rto_ms: u64, n: u32, last_ms: u64 },
    SetRemote(Creds),
    SetLocal(Creds),
    QueryTx { tid: u128 },
    QueryPeer { addr: SocketAddr },
    /// `StunAgent::send_data`: arbitrary (non-STUN) application bytes addressed like a transmission
    SendData { bytes: Vec<u8>, to: SocketAddr },
    /// `mut_request_transaction(id)`: peer address seen through the mutable handle, and through the
    /// agent reachable from it (`StunRequestMut::agent` / `mut_agent`)
    QueryTxMut { tid: u128 },
    /// transport(), local_addr(), remote_addr(), local/remote credentials
    Getters,
    /// An application that keeps a `StunRequestMut` for transaction `handle` and drives the agent
    /// *through it* (`StunRequestMut::mut_agent`): the inner call (send / poll / handle_stun) is made
    /// on the agent reachable from the handle, and the handle is asked for its peer address before
    /// and (if its own transaction is still outstanding) after the call.
    Via { handle: u128, inner: Box<Call> },
}

#[derive(Clone, Debug, PartialEq, Eq)]
pub struct MsgSummary {
    pub class: u8,
    pub method: u16,
    pub tid: u128,
    pub attrs: Vec<(u16, Vec<u8>)>,
}

pub fn summarise(m: &Message) -> MsgSummary {
    let class = match m.class() {
        MessageClass::Request => 0,
        MessageClass::Indication => 1,
        MessageClass::Success => 2,
        MessageClass::Error => 3,
    };
    MsgSummary { class, method: m.method(), tid: m.transaction_id().into(), attrs: m.iter_attributes().map(|a| (a.get_type().value(), a.value.to_vec())).collect() }
}

#[derive(Clone, Debug, PartialEq, Eq)]
pub enum Reply {
    Transmit { data: Vec<u8>, from: SocketAddr, to: SocketAddr, tcp: bool },
    SendErr(String),
    /// WaitUntil, as a signed nanosecond offset from the base instant
    Wait(i128),
    TimedOut(u128),
    Cancelled(u128),
    Drop,
    Response(MsgSummary),
    Incoming(MsgSummary),
    ParseErr(String),
    /// cancel / cancel_retransmissions / configure_timeout: None if no handle exists, else the peer
    /// address the mutable handle reports (read *before* the operation)
    Handle(Option<SocketAddr>),
    Unit,
    Tx(Option<SocketAddr>),
    Peer(bool),
    Getters { tcp: bool, local: SocketAddr, remote_addr: Option<SocketAddr>, local_creds: Option<String>, remote_creds: Option<String> },
    Panic(String, String),
    /// reply of a `Call::Via`: the inner call's reply; `before`: the handle's peer address before the
    /// call (None: no handle existed, the inner call was made on the agent directly); `after`:
    /// Some(None) if the handle's transaction was no longer outstanding after the call, else its
    /// peer address as the handle reports it then
    Via { inner: Box<Reply>, before: Option<SocketAddr>, after: Option<Option<SocketAddr>> },
}

impl Reply {
    pub fn kind(&self) -> u8 {
        match self {
            Reply::Transmit { .. } => 1,
            Reply::SendErr(_) => 2,
            Reply::Wait(_) => 3,
            Reply::TimedOut(_) => 4,
            Reply::Cancelled(_) => 5,
            Reply::Drop => 6,
            Reply::Response(_) => 7,
            Reply::Incoming(_) => 8,
            Reply::ParseErr(_) => 9,
            Reply::Handle(_) => 10,
            Reply::Unit => 11,
            Reply::Tx(_) => 12,
            Reply::Peer(_) => 13,
            Reply::Panic(_, _) => 14,
            Reply::Getters { .. } => 15,
            Reply::Via { inner, .. } => inner.kind(),
        }
    }
    pub fn short(&self) -> String {
        match self {
            Reply::Transmit { data, from, to, tcp } => format!("Transmit({}B tid={} {}->{} {})", data.len(), tid_of(data).map(|t| format!("{t:#x}")).unwrap_or("?".into()), from, to, if *tcp { "tcp" } else { "udp" }),
            Reply::Wait(t) => format!("WaitUntil(+{})", fmt_ns(*t)),
            Reply::Response(m) => format!("StunResponse(tid={:#x} class={} attrs={})", m.tid, m.class, m.attrs.len()),
            Reply::Incoming(m) => format!("IncomingStun(tid={:#x} class={} attrs={})", m.tid, m.class, m.attrs.len()),
            Reply::TimedOut(t) => format!("TransactionTimedOut({t:#x})"),
            Reply::Cancelled(t) => format!("TransactionCancelled({t:#x})"),
            Reply::Via { inner, before, after } => format!("{} [handle: before={before:?} after={after:?}]", inner.short()),
            o => format!("{o:?}"),
        }
    }
}

pub fn fmt_ns(t: i128) -> String {
    let neg = t < 0;
    let a = t.unsigned_abs();
    let s = a / 1_000_000_000;
    let ns = a % 1_000_000_000;
    format!("{}{}.{:09}s", if neg { "-" } else { "" }, s, ns)
}

pub fn tid_of(data: &[u8]) -> Option<u128> {
    if data.len() < 20 {
        return None;
    }
    let mut t = 0u128;
    for &b in &data[8..20] {
        t = (t << 8) | b as u128;
    }
    Some(t)
}

fn inst(base: Instant, at: u64) -> Instant {
    base + Duration::from_nanos(at)
}

fn off(base: Instant, t: Instant) -> i128 {
    match t.checked_duration_since(base) {
        Some(d) => d.as_nanos() as i128,
        None => -(base.duration_since(t).as_nanos() as i128),
    }
}

pub fn new_agent(tcp: bool, local: SocketAddr) -> StunAgent {
    new_agent_with(tcp, local, None)
}

/// `remote`: the optional fixed remote address a `StunAgentBuilder` can be given.  No property lets
/// it influence where a transmission goes (C18: "to the destination given at send time").
pub fn new_agent_with(tcp: bool, local: SocketAddr, remote: Option<SocketAddr>) -> StunAgent {
    let b = StunAgent::builder(if tcp { TransportType::Tcp } else { TransportType::Udp }, local);
    match remote {
        Some(r) => b.remote_addr(r).build(),
        None => b.build(),
    }
}

/// Execute one call.  Panics inside the library become `Reply::Panic`.
pub fn exec(agent: &mut StunAgent, call: &Call, base: Instant) -> Reply {
    let r = guard(|| exec_inner(agent, call, base));
    match r {
        Guarded::Ok(r) => r,
        Guarded::Panicked(m, l) => Reply::Panic(m, crate::core::short_loc(&l)),
    }
}

fn exec_inner(agent: &mut StunAgent, call: &Call, base: Instant) -> Reply {
    match call {
        // the builder is handed over as built, as a clone of it, or after `into_owned()` (an application
        // that prepared the request elsewhere) — decided by the call's own content, not by the PRNG
        Call::Send { spec, to, at } => spec.with_builder(|b| match agent.send(
            match (spec.tid as u64 ^ (*at / 1_000_000)) % 4 {
                1 => b.clone(),
                2 => b.into_owned(),
                _ => b,
            },
            *to,
            inst(base, *at),
        ) {
            Ok(t) => Reply::Transmit { data: t.data().to_vec(), from: t.from, to: t.to, tcp: t.transport == TransportType::Tcp },
            Err(e) => Reply::SendErr(format!("{e:?}")),
        }),
        Call::Poll { at } => match agent.poll(inst(base, *at)) {
            StunAgentPollRet::WaitUntil(t) => Reply::Wait(off(base, t)),
            StunAgentPollRet::SendData(t) => Reply::Transmit { data: t.data().to_vec(), from: t.from, to: t.to, tcp: t.transport == TransportType::Tcp },
            StunAgentPollRet::TransactionTimedOut(id) => Reply::TimedOut(id.into()),
            StunAgentPollRet::TransactionCancelled(id) => Reply::Cancelled(id.into()),
        },
        Call::Handle { bytes, from } => match Message::from_bytes(bytes) {
            Err(e) => Reply::ParseErr(format!("{e:?}")),
            Ok(m) => match agent.handle_stun(m, *from) {
                HandleStunReply::Drop => Reply::Drop,
                HandleStunReply::StunResponse(m) => Reply::Response(summarise(&m)),
                HandleStunReply::IncomingStun(m) => Reply::Incoming(summarise(&m)),
            },
        },
        Call::Cancel { tid } => match agent.mut_request_transaction(TransactionId::from(*tid)) {
            Some(mut r) => {
                let a = r.peer_address();
                r.cancel();
                Reply::Handle(Some(a))
            }
            None => Reply::Handle(None),
        },
        Call::CancelRetrans { tid } => match agent.mut_request_transaction(TransactionId::from(*tid)) {
            Some(mut r) => {
                let a = r.peer_address();
                r.cancel_retransmissions();
                Reply::Handle(Some(a))
            }
            None => Reply::Handle(None),
        },
        Call::Configure { tid, rto_ms, n, last_ms } => match agent.mut_request_transaction(TransactionId::from(*tid)) {
            Some(mut r) => {
                let a = r.peer_address();
                r.configure_timeout(Duration::from_millis(*rto_ms), *n, Duration::from_millis(*last_ms));
                Reply::Handle(Some(a))
            }
            None => Reply::Handle(None),
        },
        Call::SetRemote(c) => {
            agent.set_remote_credentials(c.lib());
            Reply::Unit
        }
        Call::SetLocal(c) => {
            agent.set_local_credentials(c.lib());
            Reply::Unit
        }
        // (`StunRequest` is `Clone`: odd ids are asked through a clone of the handle)
        Call::QueryTx { tid } => Reply::Tx(agent.request_transaction(TransactionId::from(*tid)).map(|r| if tid & 1 == 1 { r.clone().peer_address() } else { r.peer_address() })),
        Call::QueryPeer { addr } => Reply::Peer(agent.is_validated_peer(*addr)),
        Call::SendData { bytes, to } => {
            let t = agent.send_data(bytes, *to);
            Reply::Transmit { data: t.data().to_vec(), from: t.from, to: t.to, tcp: t.transport == TransportType::Tcp }
        }
        Call::QueryTxMut { tid } => match agent.mut_request_transaction(TransactionId::from(*tid)) {
            Some(mut r) => {
                let a = r.peer_address();
                // the agent reachable through the handle is the same agent
                let via_agent = r.agent().request_transaction(TransactionId::from(*tid)).map(|q| q.peer_address());
                let via_mut = r.mut_agent().request_transaction(TransactionId::from(*tid)).map(|q| q.peer_address());
                if via_agent != Some(a) || via_mut != Some(a) {
                    Reply::Tx(None)
                } else {
                    Reply::Tx(Some(a))
                }
            }
            None => Reply::Tx(None),
        },
        Call::Via { handle, inner } => {
            let id = TransactionId::from(*handle);
            match agent.mut_request_transaction(id) {
                None => Reply::Via { inner: Box::new(exec_inner(agent, inner, base)), before: None, after: None },
                Some(mut h) => {
                    let before = h.peer_address();
                    let r = exec_inner(h.mut_agent(), inner, base);
                    // the handle's own transaction may have completed through that call: peer_address()
                    // is only asked for a transaction the handle's own agent still lists
                    let after = if h.agent().request_transaction(id).is_some() { Some(h.peer_address()) } else { None };
                    Reply::Via { inner: Box::new(r), before: Some(before), after: Some(after) }
                }
            }
        }
        Call::Getters => Reply::Getters {
            tcp: agent.transport() == TransportType::Tcp,
            local: agent.local_addr(),
            remote_addr: agent.remote_addr(),
            local_creds: agent.local_credentials().map(|c| format!("{c:?}")),
            remote_creds: agent.remote_credentials().map(|c| format!("{c:?}")),
        },
    }
}

pub fn call_short(c: &Call) -> String {
    match c {
        Call::Send { spec, to, at } => format!("t={} send({}) to={}", fmt_ns(*at as i128), spec.desc(), to),
        Call::Poll { at } => format!("t={} poll", fmt_ns(*at as i128)),
        Call::Handle { bytes, from } => format!("handle_stun({}B tid={} type={:02x}{:02x}) from={}", bytes.len(), tid_of(bytes).map(|t| format!("{t:#x}")).unwrap_or("?".into()), bytes.first().copied().unwrap_or(0), bytes.get(1).copied().unwrap_or(0), from),
        Call::Cancel { tid } => format!("cancel({tid:#x})"),
        Call::CancelRetrans { tid } => format!("cancel_retransmissions({tid:#x})"),
        Call::Configure { tid, rto_ms, n, last_ms } => format!("configure_timeout({tid:#x}, rto={rto_ms}ms, retransmits={n}, last={last_ms}ms)"),
        Call::SetRemote(c) => format!("set_remote_credentials({})", c.short_desc()),
        Call::SetLocal(c) => format!("set_local_credentials({})", c.short_desc()),
        Call::QueryTx { tid } => format!("request_transaction({tid:#x})"),
        Call::QueryPeer { addr } => format!("is_validated_peer({addr})"),
        Call::SendData { bytes, to } => format!("send_data({}B) to={}", bytes.len(), to),
        Call::QueryTxMut { tid } => format!("mut_request_transaction({tid:#x}).peer_address()"),
        Call::Getters => "getters".into(),
        Call::Via { handle, inner } => format!("[via handle {handle:#x}] {}", call_short(inner)),
    }
}
