//! Reference STUN codec (DESIGN.md §4.2).  Written from RFC 8489 and the property statements; it
//! shares no code with /repo.  Trusted third-party parts: the SHA-1 / SHA-256 / MD5 compression
//! functions (RustCrypto).  The HMAC construction, key derivation, CRC-32, the TLV walk, the
//! ordering rules and the exposure rule are all implemented here.

use md5::Md5;
use sha1::Sha1;
use sha2::{Digest, Sha256};

pub const COOKIE: u32 = 0x2112_A442;
pub const MI: u16 = 0x0008;
pub const MI256: u16 = 0x001C;
pub const FP: u16 = 0x8028;
pub const FP_XOR: u32 = 0x5354_554e;

// ------------------------------------------------------------------------------------------------
// CRC-32 / ISO-HDLC (reflected, poly 0xEDB88320, init/xorout 0xFFFFFFFF)

fn crc_table() -> &'static [u32; 256] {
    use std::sync::OnceLock;
    static T: OnceLock<[u32; 256]> = OnceLock::new();
    T.get_or_init(|| {
        let mut t = [0u32; 256];
        for i in 0..256u32 {
            let mut c = i;
            for _ in 0..8 {
                c = if c & 1 != 0 { 0xEDB8_8320 ^ (c >> 1) } else { c >> 1 };
            }
            t[i as usize] = c;
        }
        t
    })
}

pub fn crc32(data: &[u8]) -> u32 {
    let t = crc_table();
    let mut c = 0xFFFF_FFFFu32;
    for &b in data {
        c = t[((c ^ b as u32) & 0xff) as usize] ^ (c >> 8);
    }
    c ^ 0xFFFF_FFFF
}

/// CRC over `prefix` with the header length field (bytes 2..4) replaced by `len_field`.
pub fn crc32_with_len(prefix: &[u8], len_field: u16) -> u32 {
    let mut v = prefix.to_vec();
    if v.len() >= 4 {
        v[2] = (len_field >> 8) as u8;
        v[3] = len_field as u8;
    }
    crc32(&v)
}

// ------------------------------------------------------------------------------------------------
// HMAC (RFC 2104) over RustCrypto hash primitives

fn hmac_generic<D: Digest>(block: usize, key: &[u8], data: &[u8]) -> Vec<u8> {
    let mut k = if key.len() > block { D::digest(key).to_vec() } else { key.to_vec() };
    k.resize(block, 0);
    let ipad: Vec<u8> = k.iter().map(|b| b ^ 0x36).collect();
    let opad: Vec<u8> = k.iter().map(|b| b ^ 0x5c).collect();
    let mut inner = D::new();
    inner.update(&ipad);
    inner.update(data);
    let ih = inner.finalize();
    let mut outer = D::new();
    outer.update(&opad);
    outer.update(&ih);
    outer.finalize().to_vec()
}

pub fn hmac_sha1(key: &[u8], data: &[u8]) -> Vec<u8> {
    hmac_generic::<Sha1>(64, key, data)
}
pub fn hmac_sha256(key: &[u8], data: &[u8]) -> Vec<u8> {
    hmac_generic::<Sha256>(64, key, data)
}

#[derive(Clone, Debug, PartialEq, Eq)]
pub enum RefCreds {
    Short { password: String },
    Long { user: String, realm: String, password: String },
}

impl RefCreds {
    /// RFC 8489 §9.1.1 / §9.2.2 (no SASLprep / OpaqueString processing: the library does none
    /// either and the properties speak of "password" / "MD5(user:realm:password)" literally).
    pub fn key(&self) -> Vec<u8> {
        match self {
            RefCreds::Short { password } => password.as_bytes().to_vec(),
            RefCreds::Long { user, realm, password } => {
                let mut h = Md5::new();
                h.update(user.as_bytes());
                h.update(b":");
                h.update(realm.as_bytes());
                h.update(b":");
                h.update(password.as_bytes());
                h.finalize().to_vec()
            }
        }
    }
}

fn with_len(prefix: &[u8], len_field: usize) -> Vec<u8> {
    let mut v = prefix.to_vec();
    v[2] = (len_field >> 8) as u8;
    v[3] = len_field as u8;
    v
}

// ------------------------------------------------------------------------------------------------
// decoding

#[derive(Clone, Debug, PartialEq, Eq)]
pub struct RefAttr {
    pub ty: u16,
    /// offset of the attribute header in the buffer
    pub off: usize,
    /// declared (unpadded) value length
    pub len: usize,
}

impl RefAttr {
    pub fn value<'a>(&self, buf: &'a [u8]) -> &'a [u8] {
        &buf[self.off + 4..self.off + 4 + self.len]
    }
    pub fn end_padded(&self) -> usize {
        self.off + 4 + pad4(self.len)
    }
}

pub fn pad4(n: usize) -> usize {
    (n + 3) & !3
}

#[derive(Clone, Debug, PartialEq, Eq)]
pub struct RefView {
    /// 0 request, 1 indication, 2 success, 3 error
    pub class: u8,
    pub method: u16,
    pub tid: u128,
    /// every attribute of the body, in order
    pub all: Vec<RefAttr>,
    /// indices into `all` of the attributes that are exposed (C10)
    pub exposed: Vec<usize>,
    /// index into `all` of the first integrity attribute
    pub first_integrity: Option<usize>,
}

#[derive(Clone, Debug, PartialEq, Eq)]
pub enum Cause {
    NotStun,
    TruncHeader { actual: usize },
    TruncBody { expected: usize, actual: usize },
    Excess { expected: usize, actual: usize },
    AttrOverrun,
    AfterIntegrity(u16),
    AfterFingerprint(u16),
    FpMismatch,
    FpMalformed,
}

#[derive(Clone, Debug, PartialEq, Eq)]
pub enum Verdict {
    Accept(RefView),
    Reject(Vec<Cause>),
}

pub fn class_of(t: u16) -> u8 {
    (((t >> 4) & 1) | ((t >> 7) & 2)) as u8
}
pub fn method_of(t: u16) -> u16 {
    (t & 0x000f) | ((t & 0x00e0) >> 1) | ((t & 0x3e00) >> 2)
}
pub fn type_field(class: u8, method: u16) -> u16 {
    let c = ((class as u16 & 1) << 4) | ((class as u16 & 2) << 7);
    c | (method & 0xf) | ((method & 0x70) << 1) | ((method & 0xf80) << 2)
}

fn be16(b: &[u8]) -> u16 {
    ((b[0] as u16) << 8) | b[1] as u16
}

/// Tolerant walk over `body_end` bytes of `buf` starting at 20; returns the attributes that tile
/// and whether the walk ended exactly at `body_end`.
pub fn walk(buf: &[u8], body_end: usize) -> (Vec<RefAttr>, bool) {
    let mut v = vec![];
    let mut o = 20usize;
    while o < body_end {
        if body_end - o < 4 {
            return (v, false);
        }
        let ty = be16(&buf[o..]);
        let len = be16(&buf[o + 2..]) as usize;
        if o + 4 + pad4(len) > body_end {
            return (v, false);
        }
        v.push(RefAttr { ty, off: o, len });
        o += 4 + pad4(len);
    }
    (v, true)
}

/// Which attributes of a tiled body are exposed (C10).
pub fn exposure(all: &[RefAttr]) -> (Vec<usize>, Option<usize>) {
    let first = all.iter().position(|a| a.ty == MI || a.ty == MI256);
    let Some(fi) = first else {
        return ((0..all.len()).collect(), None);
    };
    let mut e: Vec<usize> = (0..=fi).collect();
    if all[fi].ty == MI && all.get(fi + 1).map(|a| a.ty) == Some(MI256) {
        e.push(fi + 1);
    }
    if let Some(fp) = all.iter().enumerate().skip(fi + 1).find(|(_, a)| a.ty == FP).map(|(i, _)| i) {
        e.push(fp);
    }
    (e, Some(fi))
}

pub fn decode(buf: &[u8]) -> Verdict {
    let n = buf.len();
    let mut causes = vec![];
    if n >= 1 && buf[0] & 0xc0 != 0 {
        causes.push(Cause::NotStun);
    }
    if n >= 4 && buf[3] & 3 != 0 && !causes.contains(&Cause::NotStun) {
        // RFC 8489 s5 names the two low bits of the length field (always zero, attributes being padded)
        // as a way to tell STUN from other protocols: a decoder may call such a buffer "not STUN"
        causes.push(Cause::NotStun);
    }
    if n < 20 {
        // a short buffer can already show that it is not STUN: a cookie byte that is present and wrong
        // (both defects are then present; the property does not rank coexisting causes)
        let ck = COOKIE.to_be_bytes();
        if (4..n.min(8)).any(|i| buf[i] != ck[i - 4]) && !causes.contains(&Cause::NotStun) {
            causes.push(Cause::NotStun);
        }
        causes.push(Cause::TruncHeader { actual: n });
        return Verdict::Reject(causes);
    }
    let cookie = ((buf[4] as u32) << 24) | ((buf[5] as u32) << 16) | ((buf[6] as u32) << 8) | buf[7] as u32;
    if cookie != COOKIE && !causes.contains(&Cause::NotStun) {
        causes.push(Cause::NotStun);
    }
    let declared = be16(&buf[2..]) as usize;
    let body_end = declared + 20;
    if body_end > n {
        causes.push(Cause::TruncBody { expected: body_end, actual: n });
    }
    if body_end < n {
        causes.push(Cause::Excess { expected: body_end, actual: n });
    }
    let walk_end = body_end.min(n);
    let (all, tiled) = walk(buf, walk_end);
    if !tiled {
        causes.push(Cause::AttrOverrun);
    }
    // ordering rules and fingerprint, on whatever tiled -- plus, for the ordering rules only, a
    // trailing attribute whose header is present but which overruns the body (its type is known, so
    // "an attribute of that type after ..." is a defect that is present, too)
    let mut seen_int = false;
    let mut seen_fp = false;
    let mut seen = [false; 3];
    let mut scan: Vec<(RefAttr, bool)> = all.iter().cloned().map(|a| (a, true)).collect();
    if !tiled {
        let o = all.last().map(|a| a.end_padded()).unwrap_or(20);
        if walk_end >= o + 4 {
            scan.push((RefAttr { ty: be16(&buf[o..]), off: o, len: be16(&buf[o + 2..]) as usize }, false));
        }
    }
    for (a, complete) in &scan {
        let complete = *complete;
        let slot = match a.ty {
            MI => Some(0),
            MI256 => Some(1),
            FP => Some(2),
            _ => None,
        };
        if seen_fp {
            causes.push(Cause::AfterFingerprint(a.ty));
            if seen_int {
                causes.push(Cause::AfterIntegrity(a.ty));
            }
        } else if seen_int {
            match slot {
                None => causes.push(Cause::AfterIntegrity(a.ty)),
                Some(s) if seen[s] => causes.push(Cause::AfterIntegrity(a.ty)),
                _ => {}
            }
        }
        if a.ty == FP && complete {
            if a.len != 4 {
                causes.push(Cause::FpMalformed);
            } else {
                let want = crc32_with_len(&buf[..a.off], (a.off + 8 - 20) as u16) ^ FP_XOR;
                let got = a.value(buf);
                if got != want.to_be_bytes() {
                    causes.push(Cause::FpMismatch);
                }
            }
        }
        if let Some(s) = slot {
            seen[s] = true;
            if s == 2 {
                seen_fp = true;
            } else {
                seen_int = true;
            }
        }
    }
    if !causes.is_empty() {
        causes.dedup();
        return Verdict::Reject(causes);
    }
    let t = be16(buf);
    let mut tid: u128 = 0;
    for &b in &buf[8..20] {
        tid = (tid << 8) | b as u128;
    }
    let (exposed, first_integrity) = exposure(&all);
    Verdict::Accept(RefView { class: class_of(t), method: method_of(t), tid, all, exposed, first_integrity })
}

/// For every integrity attribute in the body: (index into `all`, type, MAC correct under `creds`).
pub fn integrity_status(buf: &[u8], view: &RefView, creds: &RefCreds) -> Vec<(usize, u16, bool)> {
    let key = creds.key();
    let mut out = vec![];
    for (i, a) in view.all.iter().enumerate() {
        if a.ty == MI {
            let ok = a.len == 20 && {
                let input = with_len(&buf[..a.off], a.off + 24 - 20);
                hmac_sha1(&key, &input) == a.value(buf)
            };
            out.push((i, MI, ok));
        } else if a.ty == MI256 {
            let ok = (16..=32).contains(&a.len) && a.len % 4 == 0 && {
                let input = with_len(&buf[..a.off], a.off + 4 + a.len - 20);
                hmac_sha256(&key, &input)[..a.len] == *a.value(buf)
            };
            out.push((i, MI256, ok));
        }
    }
    out
}

/// May validation answer `Ok(alg)` (alg = None: `Ok` of whatever algorithm) for this message?
/// Yes iff some *correct* integrity attribute (of that algorithm; exposed or hidden) lies after every
/// *wrong exposed* one: its HMAC covers everything before it, the wrong MAC included, so a peer must
/// have built the message that way.  A correct MAC that is *followed* by a wrong exposed one vouches
/// for nothing after itself — that is byte for byte what tampering with a correctly sealed message
/// produces, and must be refused.  Wrong attributes hidden behind the first integrity attribute are
/// unauthenticated trailing data and do not count.
pub fn ok_verdict_acceptable(status: &[(usize, u16, bool)], exposed: &[usize], alg: Option<u16>) -> bool {
    let last_wrong_exposed = status.iter().filter(|s| !s.2 && exposed.contains(&s.0)).map(|s| s.0).max();
    status.iter().any(|s| s.2 && alg.map_or(true, |a| a == s.1) && last_wrong_exposed.map_or(true, |w| s.0 > w))
}

// ------------------------------------------------------------------------------------------------
// encoding (the "foreign peer")

#[derive(Clone, Debug)]
pub enum RefItem {
    Attr { ty: u16, value: Vec<u8>, pad: u8 },
    /// MESSAGE-INTEGRITY; `flip` = (byte index in MAC, bit mask) applied after computing it
    Mac1 { creds: RefCreds, flip: Option<(usize, u8)> },
    /// MESSAGE-INTEGRITY-SHA256 truncated to `len` (16..=32, multiple of 4)
    Mac256 { creds: RefCreds, len: usize, flip: Option<(usize, u8)> },
    /// a FINGERPRINT attribute that is too long: the correct CRC (for a length field covering the
    /// whole attribute) followed by `extra` (a multiple of 4) further value bytes.  Never well-formed.
    FpLong { extra: usize },
    Fp { flip: Option<(usize, u8)> },
}

#[derive(Clone, Debug)]
pub struct RefMsg {
    pub type_field: u16,
    pub cookie: u32,
    pub tid: u128,
    pub items: Vec<RefItem>,
}

impl RefMsg {
    pub fn new(class: u8, method: u16, tid: u128) -> Self {
        Self { type_field: type_field(class, method), cookie: COOKIE, tid: tid & ((1u128 << 96) - 1), items: vec![] }
    }
    pub fn encode(&self) -> Vec<u8> {
        let mut b = Vec::with_capacity(64);
        b.extend_from_slice(&self.type_field.to_be_bytes());
        b.extend_from_slice(&[0, 0]);
        b.extend_from_slice(&self.cookie.to_be_bytes());
        b.extend_from_slice(&self.tid.to_be_bytes()[4..16]);
        for it in &self.items {
            match it {
                RefItem::Attr { ty, value, pad } => {
                    b.extend_from_slice(&ty.to_be_bytes());
                    b.extend_from_slice(&(value.len() as u16).to_be_bytes());
                    b.extend_from_slice(value);
                    while b.len() % 4 != 0 {
                        b.push(*pad);
                    }
                }
                RefItem::Mac1 { creds, flip } => {
                    let input = with_len(&b, b.len() + 24 - 20);
                    let mut mac = hmac_sha1(&creds.key(), &input);
                    if let Some((i, m)) = flip {
                        mac[i % 20] ^= m;
                    }
                    b.extend_from_slice(&MI.to_be_bytes());
                    b.extend_from_slice(&20u16.to_be_bytes());
                    b.extend_from_slice(&mac);
                }
                RefItem::Mac256 { creds, len, flip } => {
                    let input = with_len(&b, b.len() + 4 + len - 20);
                    let mut mac = hmac_sha256(&creds.key(), &input);
                    // `len` outside 16..=32 or not a multiple of 4 gives an *irregular* attribute (the
                    // correct HMAC prefix, or the HMAC followed by filler): never valid, see
                    // integrity_status
                    mac.resize(*len, 0xEE);
                    if let Some((i, m)) = flip {
                        let l = mac.len();
                        if l > 0 {
                            mac[i % l] ^= m;
                        }
                    }
                    b.extend_from_slice(&MI256.to_be_bytes());
                    b.extend_from_slice(&(*len as u16).to_be_bytes());
                    b.extend_from_slice(&mac);
                    while b.len() % 4 != 0 {
                        b.push(0);
                    }
                }
                RefItem::FpLong { extra } => {
                    let c = crc32_with_len(&b, (b.len() + 8 + extra - 20) as u16) ^ FP_XOR;
                    b.extend_from_slice(&FP.to_be_bytes());
                    b.extend_from_slice(&((4 + extra) as u16).to_be_bytes());
                    b.extend_from_slice(&c.to_be_bytes());
                    b.extend(std::iter::repeat(0x5a).take(*extra));
                }
                RefItem::Fp { flip } => {
                    let c = crc32_with_len(&b, (b.len() + 8 - 20) as u16) ^ FP_XOR;
                    let mut v = c.to_be_bytes();
                    if let Some((i, m)) = flip {
                        v[i % 4] ^= m;
                    }
                    b.extend_from_slice(&FP.to_be_bytes());
                    b.extend_from_slice(&4u16.to_be_bytes());
                    b.extend_from_slice(&v);
                }
            }
        }
        let l = (b.len() - 20) as u16;
        b[2..4].copy_from_slice(&l.to_be_bytes());
        b
    }
}

/// Recompute the FINGERPRINT of a buffer whose last attribute is a FINGERPRINT (used by the
/// attacker after rewriting a tail).
pub fn refingerprint(buf: &mut Vec<u8>) {
    let n = buf.len();
    if n < 28 {
        return;
    }
    let off = n - 8;
    let c = crc32_with_len(&buf[..off], (n - 20) as u16) ^ FP_XOR;
    buf[off + 4..].copy_from_slice(&c.to_be_bytes());
}

#[cfg(test)]
mod tests {
    use super::*;
    #[test]
    fn crc_check_value() {
        assert_eq!(crc32(b"123456789"), 0xCBF43926);
    }
    #[test]
    fn hmac_rfc2202() {
        // RFC 2202 test case 2
        let m = hmac_sha1(b"Jefe", b"what do ya want for nothing?");
        assert_eq!(m, [0xef, 0xfc, 0xdf, 0x6a, 0xe5, 0xeb, 0x2f, 0xa2, 0xd2, 0x74, 0x16, 0xd5, 0xf1, 0x84, 0xdf, 0x9c, 0x25, 0x9a, 0x7c, 0x79]);
        // RFC 4231 test case 2
        let m = hmac_sha256(b"Jefe", b"what do ya want for nothing?");
        assert_eq!(&m[..8], &[0x5b, 0xdc, 0xc1, 0x46, 0xbf, 0x60, 0x75, 0x4e]);
    }
    #[test]
    fn rfc5769_long_term_request() {
        // RFC 5769 §2.4: long-term credentials; password after SASLprep is "TheMatrIX"
        let m: Vec<u8> = vec![
            0x00, 0x01, 0x00, 0x60, 0x21, 0x12, 0xa4, 0x42, 0x78, 0xad, 0x34, 0x33, 0xc6, 0xad, 0x72, 0xc0, 0x29, 0xda, 0x41, 0x2e, 0x00, 0x06, 0x00, 0x12, 0xe3, 0x83, 0x9e, 0xe3, 0x83, 0x88,
            0xe3, 0x83, 0xaa, 0xe3, 0x83, 0x83, 0xe3, 0x82, 0xaf, 0xe3, 0x82, 0xb9, 0x00, 0x00, 0x00, 0x15, 0x00, 0x1c, 0x66, 0x2f, 0x2f, 0x34, 0x39, 0x39, 0x6b, 0x39, 0x35, 0x34, 0x64, 0x36,
            0x4f, 0x4c, 0x33, 0x34, 0x6f, 0x4c, 0x39, 0x46, 0x53, 0x54, 0x76, 0x79, 0x36, 0x34, 0x73, 0x41, 0x00, 0x14, 0x00, 0x0b, 0x65, 0x78, 0x61, 0x6d, 0x70, 0x6c, 0x65, 0x2e, 0x6f, 0x72,
            0x67, 0x00, 0x00, 0x08, 0x00, 0x14, 0xf6, 0x70, 0x24, 0x65, 0x6d, 0xd6, 0x4a, 0x3e, 0x02, 0xb8, 0xe0, 0x71, 0x2e, 0x85, 0xc9, 0xa2, 0x8c, 0xa8, 0x96, 0x66,
        ];
        let Verdict::Accept(v) = decode(&m) else { panic!("{:?}", decode(&m)) };
        let c = RefCreds::Long { user: "\u{30DE}\u{30C8}\u{30EA}\u{30C3}\u{30AF}\u{30B9}".into(), realm: "example.org".into(), password: "TheMatrIX".into() };
        assert_eq!(integrity_status(&m, &v, &c), vec![(3, MI, true)]);
        let wrong = RefCreds::Long { user: "\u{30DE}\u{30C8}\u{30EA}\u{30C3}\u{30AF}\u{30B9}".into(), realm: "example.org".into(), password: "TheMatrIx".into() };
        assert_eq!(integrity_status(&m, &v, &wrong), vec![(3, MI, false)]);
        // and the encoder reproduces the vector
        let mut r = RefMsg::new(0, 1, 0x78ad_3433_c6ad_72c0_29da_412e);
        for a in &v.all[..3] {
            r.items.push(RefItem::Attr { ty: a.ty, value: a.value(&m).to_vec(), pad: 0 });
        }
        r.items.push(RefItem::Mac1 { creds: c, flip: None });
        assert_eq!(r.encode(), m);
    }
    #[test]
    fn exposure_rule() {
        let a = |ty| RefAttr { ty, off: 0, len: 0 };
        assert_eq!(exposure(&[a(1), a(MI), a(MI256), a(FP)]).0, vec![0, 1, 2, 3]);
        assert_eq!(exposure(&[a(1), a(MI256), a(MI), a(FP)]).0, vec![0, 1, 3]);
        assert_eq!(exposure(&[a(1), a(MI256), a(MI)]).0, vec![0, 1]);
        assert_eq!(exposure(&[a(1), a(FP)]).0, vec![0, 1]);
        assert_eq!(exposure(&[a(MI), a(FP)]).0, vec![0, 1]);
    }
    #[test]
    fn rfc5769_request() {
        // RFC 5769 §2.1 sample request (short-term, password below)
        let mut m = vec![
            0x00, 0x01, 0x00, 0x58, 0x21, 0x12, 0xa4, 0x42, 0xb7, 0xe7, 0xa7, 0x01, 0xbc, 0x34, 0xd6, 0x86, 0xfa, 0x87, 0xdf, 0xae, 0x80, 0x22, 0x00, 0x10, 0x53, 0x54, 0x55, 0x4e, 0x20, 0x74,
            0x65, 0x73, 0x74, 0x20, 0x63, 0x6c, 0x69, 0x65, 0x6e, 0x74, 0x00, 0x24, 0x00, 0x04, 0x6e, 0x00, 0x01, 0xff, 0x80, 0x29, 0x00, 0x08, 0x93, 0x2f, 0xf9, 0xb1, 0x51, 0x26, 0x3b, 0x36,
            0x00, 0x06, 0x00, 0x09, 0x65, 0x76, 0x74, 0x6a, 0x3a, 0x68, 0x36, 0x76, 0x59, 0x20, 0x20, 0x20, 0x00, 0x08, 0x00, 0x14, 0x9a, 0xea, 0xa7, 0x0c, 0xbf, 0xd8, 0xcb, 0x56, 0x78, 0x1e,
            0xf2, 0xb5, 0xb2, 0xd3, 0xf2, 0x49, 0xc1, 0xb5, 0x71, 0xa2, 0x80, 0x28, 0x00, 0x04, 0xe5, 0x7a, 0x3b, 0xcf,
        ];
        let Verdict::Accept(v) = decode(&m) else { panic!("{:?}", decode(&m)) };
        assert_eq!(v.class, 0);
        assert_eq!(v.method, 1);
        assert_eq!(v.all.len(), 6);
        let st = integrity_status(&m, &v, &RefCreds::Short { password: "VOkJxbRl1RmTxUk/WvJxBt".into() });
        assert_eq!(st, vec![(4, MI, true)]);
        m[30] ^= 1;
        assert_eq!(decode(&m), Verdict::Reject(vec![Cause::FpMismatch]));
    }
}
