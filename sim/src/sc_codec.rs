//! Scenarios `cut` (C17), `crc` (C09), `tamper` (C04), `tailsplice` (C10): a sender (library
//! builder or foreign peer), a damaging link or attacker, a receiver.  The inner loops enumerate
//! every fault of a kind for the sampled message (all cut points, all single-bit flips, all
//! bursts / byte substitutions for short messages) — DESIGN.md §5.

use crate::choices::Choices;
use crate::core::{fnv, guard, short_loc, Ctx, Guarded, ScResult, Violation, FNV0};
use crate::ev;
use crate::faults::burst;
use crate::gen::*;
use crate::pipeline::compare_view;
use crate::refcodec::{self, RefItem, RefMsg, Verdict, FP, MI, MI256};
use stun_types::attribute::*;
use stun_types::message::*;

fn g<T>(prop: &str, site: &'static str, f: impl FnOnce() -> T) -> Result<T, Violation> {
    match guard(f) {
        Guarded::Ok(v) => Ok(v),
        Guarded::Panicked(m, l) => Err(Violation::new(prop, "panic", site, format!("{site} panicked: {m} at {}", short_loc(&l)))),
    }
}

/// A well-formed message: (bytes, description, built by the library?)
fn gen_wellformed(ctx: &mut Ctx, creds: &Creds, want_fp: bool, want_integrity: bool, allow_big: bool) -> (Vec<u8>, String, bool) {
    let (b, d, s) = gen_wellformed_spec(ctx, creds, want_fp, want_integrity, allow_big);
    (b, d, s.is_some())
}

fn gen_wellformed_spec(ctx: &mut Ctx, creds: &Creds, want_fp: bool, want_integrity: bool, allow_big: bool) -> (Vec<u8>, String, Option<MsgSpec>) {
    let pool = gen_addr_pool(ctx.ch, 3);
    for _ in 0..50 {
        let foreign = ctx.ch.rare(2, 5);
        let mut the_spec = None;
        let (b, d) = if foreign {
            let m = gen_foreign(ctx.ch, creds, 4);
            (m.encode(), format!("foreign {:?}", m.items.iter().map(item_name).collect::<Vec<_>>()))
        } else {
            let variant = ctx.ch.below(8);
            let spec = if allow_big && ctx.ch.rare(1, 25) {
                ctx.st.inc("probe.message_at_16bit_length_limit");
                gen_big_spec(ctx.ch, creds, variant)
            } else {
                let attrs = gen_attrs(ctx.ch, &pool, &SpecOpts { max_attrs: 4, big: 0 });
                MsgSpec { class: ctx.ch.below(4) as u8, method: *ctx.ch.pick(&[1u16, 0, 0xfff, 3]), tid: gen_tid(ctx.ch), attrs, seals: seals_of(variant, creds) }
            };
            let r = (spec.build(), spec.desc());
            the_spec = Some(spec);
            r
        };
        let view = match refcodec::decode(&b) {
            Verdict::Accept(view) => view,
            Verdict::Reject(causes) => {
                if !foreign {
                    // the library's own builder produced something the reference decoder refuses
                    ctx.st.inc("probe.library_built_message_refused_by_reference");
                    if causes.iter().any(|c| matches!(c, refcodec::Cause::FpMismatch | refcodec::Cause::FpMalformed)) {
                        ctx.builder_fp_wrong = Some((the_spec.as_ref().map(|s| s.desc()).unwrap_or_default(), b.clone()));
                    }
                }
                continue;
            }
        };
        let has_fp = view.all.last().map(|a| a.ty) == Some(FP);
        let has_int = view.first_integrity.is_some();
        if (want_fp && !has_fp) || (want_integrity && !has_int) {
            continue;
        }
        if foreign {
            ctx.st.inc("op.foreign_message");
        } else {
            ctx.st.inc("op.library_message");
        }
        return (b, d, the_spec);
    }
    // fall back to a fixed simple message
    let spec = MsgSpec { class: 0, method: 1, tid: 1, attrs: vec![TAttr::Software("x".into())], seals: seals_of(7, creds) };
    (spec.build(), spec.desc(), Some(spec))
}

fn item_name(i: &RefItem) -> String {
    match i {
        RefItem::Attr { ty, value, .. } => format!("{ty:#06x}/{}", value.len()),
        RefItem::Mac1 { flip, .. } => format!("MI{}", if flip.is_some() { "!" } else { "" }),
        RefItem::Mac256 { len, flip, .. } => format!("MI256/{len}{}", if flip.is_some() { "!" } else { "" }),
        RefItem::Fp { flip } => format!("FP{}", if flip.is_some() { "!" } else { "" }),
        RefItem::FpLong { extra } => format!("FP+{extra}"),
    }
}

fn case(ctx: &mut Ctx, h: u64) {
    ctx.st.cases += 1;
    ctx.st.cases_nontrivial += 1;
    ctx.case_hashes.push(h);
}

// ================================================================================================
// C17: every strict prefix is reported as truncated with the length still needed

pub fn scenario_cut(ctx: &mut Ctx) -> ScResult {
    let creds = gen_creds(ctx.ch);
    let (m, desc, _) = gen_wellformed(ctx, &creds, false, false, true);
    ev!(ctx, "message {}B: {}", m.len(), desc);
    let mh = fnv(FNV0, &m);
    // --- all cut points
    for c in 0..m.len() {
        let p = &m[..c];
        let r = g("C17", "Message::from_bytes", || Message::from_bytes(p).map(|_| ()))?;
        let r_try = g("C17", "Message::try_from", || Message::try_from(p).map(|_| ()))?;
        let want_expected = if c < 20 { 20 } else { m.len() };
        if !matches!(r_try, Err(StunParseError::Truncated { expected, actual }) if expected == want_expected && actual == c) {
            return Err(Violation::new("C17", "prefix_reported_truncated", "Message::try_from", format!("prefix of {c} bytes of a well-formed {}-byte message through Message::try_from: expected Truncated {{ expected: {want_expected}, actual: {c} }}, got {r_try:?}", m.len())));
        }
        match r {
            Err(StunParseError::Truncated { expected, actual }) if expected == want_expected && actual == c => {}
            other => {
                let site = if c < 20 { "cut_inside_header" } else if c == 20 { "cut_at_header_end" } else { "cut_inside_body" };
                let v = Violation::new("C17", "prefix_reported_truncated", site, format!("prefix of {c} bytes of a well-formed {}-byte message: expected Truncated {{ expected: {want_expected}, actual: {c} }}, got {other:?}", m.len()));
                ev!(ctx, "  !! {}", v.message);
                return Err(v);
            }
        }
        // the stand-alone header decoder on short input
        if c < 20 {
            let r = g("C17", "MessageHeader::from_bytes", || MessageHeader::from_bytes(p).map(|_| ()))?;
            // (C17 constrains the header decoder on 20-byte prefixes only; on shorter input it must
            // merely not accept)
            if r.is_ok() {
                let v = Violation::new("C17", "header_short_input", "MessageHeader::from_bytes", format!("MessageHeader::from_bytes accepted {c} bytes: {r:?}"));
                ev!(ctx, "  !! {}", v.message);
                return Err(v);
            }
        }
        ctx.st.cases += 1;
    }
    ctx.st.add("enum.cut_points", m.len() as u64);
    ctx.st.cases_nontrivial += m.len() as u64;
    ctx.case_hashes.push(mh);
    // --- a stalled stream: the reader asks again and again about the same incomplete message and
    // must get the same answer every time (40 times in a row, at three drawn cut points)
    for _ in 0..3 {
        let c = ctx.ch.below(m.len() as u64) as usize;
        let p = &m[..c];
        let want_expected = if c < 20 { 20 } else { m.len() };
        for i in 0..40 {
            let r = g("C17", "Message::from_bytes", || Message::from_bytes(p).map(|_| ()))?;
            if !matches!(r, Err(StunParseError::Truncated { expected, actual }) if expected == want_expected && actual == c) {
                let v = Violation::new("C17", "prefix_reported_truncated", "repeated_parse_of_same_prefix", format!("prefix of {c} bytes of a well-formed {}-byte message, parsed for the {}th time in a row: expected Truncated {{ expected: {want_expected}, actual: {c} }}, got {r:?}", m.len(), i + 1));
                ev!(ctx, "  !! {}", v.message);
                return Err(v);
            }
        }
        ctx.st.inc("fault.stalled_stream_repeated_parse");
    }
    // --- header decoder vs full parser: each of the 160 header bits flipped, plus the original
    for bit in 0..=160usize {
        let mut x = m.clone();
        if bit < 160 {
            x[bit / 8] ^= 0x80 >> (bit % 8);
        }
        header_agrees(ctx, &x)?;
    }
    ctx.st.add("enum.header_bit_flips", 160);
    ctx.st.cases += 161;
    // --- the header decoder alone, on headers that differ from the previous one in a single bit,
    // back to back (no full parse in between): what it reports must come from the bytes it was given
    for bit in 0..160usize {
        let mut x = m[..20].to_vec();
        x[bit / 8] ^= 0x80 >> (bit % 8);
        let r = g("C17", "MessageHeader::from_bytes", || MessageHeader::from_bytes(&x).map(|h| (h.transaction_id(), h.data_length())))?;
        if let Ok((tid, len)) = r {
            let want_tid: u128 = crate::agentapi::tid_of(&x).unwrap();
            let got_tid: u128 = tid.into();
            let want_len = ((x[2] as u16) << 8) | x[3] as u16;
            if got_tid != want_tid || len != want_len {
                let v = Violation::new("C17", "header_decoder_agrees", "reports_other_headers_fields", format!("MessageHeader::from_bytes on {} reports transaction id {got_tid:#x} and length {len}; the bytes encode {want_tid:#x} and {want_len}", hex(&x)));
                ev!(ctx, "  !! {}", v.message);
                return Err(v);
            }
        }
    }
    // --- header-delimited reassembly of a message sequence over a segmented stream
    let k = ctx.ch.range(1, 4) as usize;
    let mut sent = vec![m.clone()];
    for _ in 1..k {
        let (x, _, _) = gen_wellformed(ctx, &creds, false, false, false);
        sent.push(x);
    }
    let stream: Vec<u8> = sent.iter().flatten().copied().collect();
    let mut pos = 0usize;
    let mut buf: Vec<u8> = vec![];
    let mut got: Vec<Vec<u8>> = vec![];
    let mut segs = 0;
    loop {
        // drain what is complete, using only the header decoder / the Truncated report
        loop {
            if buf.len() < 20 {
                if !buf.is_empty() {
                    let r = g("C17", "Message::from_bytes", || Message::from_bytes(&buf).map(|_| ()))?;
                    if !matches!(r, Err(StunParseError::Truncated { expected: 20, .. })) {
                        return Err(Violation::new("C17", "reassembly", "short_header", format!("{} buffered bytes: {r:?}", buf.len())));
                    }
                }
                break;
            }
            let hdr = g("C17", "MessageHeader::from_bytes", || MessageHeader::from_bytes(&buf[..20]).map(|h| h.data_length()))?;
            let need = match hdr {
                Ok(l) => 20 + l as usize,
                Err(e) => return Err(Violation::new("C17", "reassembly", "header_refused", format!("header of a well-formed message refused: {e:?}"))),
            };
            if buf.len() < need {
                let r = g("C17", "Message::from_bytes", || Message::from_bytes(&buf).map(|_| ()))?;
                match r {
                    Err(StunParseError::Truncated { expected, actual }) if expected == need && actual == buf.len() => {}
                    o => return Err(Violation::new("C17", "reassembly", "wait_size", format!("{} of {need} bytes buffered: {o:?}", buf.len()))),
                }
                break;
            }
            let r = g("C17", "Message::from_bytes", || Message::from_bytes(&buf[..need]).map(|_| ()))?;
            if r.is_err() {
                return Err(Violation::new("C17", "reassembly", "complete_message_refused", format!("complete message of {need} bytes refused: {r:?}")));
            }
            got.push(buf[..need].to_vec());
            buf.drain(..need);
        }
        if pos >= stream.len() {
            break;
        }
        let rem = stream.len() - pos;
        let n = match ctx.ch.below(5) {
            0 => 1,
            1 => rem,
            2 => ctx.ch.range(1, 3) as usize,
            3 => ctx.ch.range(1, 40) as usize,
            _ => ctx.ch.range(1, rem as u64) as usize,
        }
        .min(rem);
        buf.extend_from_slice(&stream[pos..pos + n]);
        pos += n;
        segs += 1;
    }
    ctx.st.add("fault.segmentation", segs);
    if got != sent {
        let v = Violation::new("C17", "reassembly", "sequence", format!("reassembled {} messages, sent {}", got.len(), sent.len()));
        ev!(ctx, "  !! {}", v.message);
        return Err(v);
    }
    ev!(ctx, "  {} cut points, 161 header variants, {} messages reassembled from {} segments", m.len(), sent.len(), segs);
    ctx.st.nontrivial = true;
    Ok(())
}

fn header_agrees(ctx: &mut Ctx, x: &[u8]) -> ScResult {
    let full = g("C17", "Message::from_bytes", || Message::from_bytes(x).map(|m| (m.get_type(), m.transaction_id())))?;
    let hdr = g("C17", "MessageHeader::from_bytes", || MessageHeader::from_bytes(&x[..20]).map(|h| (h.get_type(), h.transaction_id(), h.data_length())))?;
    let full_not_stun = matches!(full, Err(StunParseError::NotStun));
    match (&hdr, full_not_stun) {
        (Ok(_), true) => {
            let v = Violation::new("C17", "header_decoder_agrees", "accepts_non_stun", "MessageHeader::from_bytes accepts a 20-byte prefix that Message::from_bytes calls not STUN".to_string());
            ev!(ctx, "  !! {} {}", v.message, hex(&x[..20]));
            return Err(v);
        }
        (Err(e), false) => {
            let v = Violation::new("C17", "header_decoder_agrees", "refuses_stun_header", format!("MessageHeader::from_bytes refuses ({e:?}) a 20-byte prefix that Message::from_bytes does not call non-STUN ({full:?})"));
            ev!(ctx, "  !! {} {}", v.message, hex(&x[..20]));
            return Err(v);
        }
        _ => {}
    }
    // ... and the same when the 20-byte prefix is all the full parser is given (the header has
    // arrived, the body has not): it calls the prefix non-STUN exactly if the header decoder refuses it
    if x.len() > 20 {
        let alone = g("C17", "Message::from_bytes", || Message::from_bytes(&x[..20]).map(|_| ()))?;
        let alone_not_stun = matches!(alone, Err(StunParseError::NotStun));
        if hdr.is_ok() == alone_not_stun {
            let v = Violation::new("C17", "header_decoder_agrees", if hdr.is_ok() { "accepts_non_stun_prefix" } else { "refuses_stun_header_prefix" }, format!("MessageHeader::from_bytes answers {:?} for a 20-byte prefix for which Message::from_bytes (given only those 20 bytes) answers {alone:?}", hdr.as_ref().map(|_| "Ok").map_err(|e| format!("{e:?}"))));
            ev!(ctx, "  !! {} {}", v.message, hex(&x[..20]));
            return Err(v);
        }
    }
    if let Ok((ty, tid, len)) = &hdr {
        // the same fields as encoded in the bytes
        let t = ((x[0] as u16) << 8) | x[1] as u16;
        let want_ty = MessageType::from_class_method(lib_class(refcodec::class_of(t)), refcodec::method_of(t));
        let want_tid = crate::agentapi::tid_of(x).unwrap();
        let want_len = ((x[2] as u16) << 8) | x[3] as u16;
        let tid_v: u128 = (*tid).into();
        if *ty != want_ty || tid_v != want_tid || *len != want_len {
            return Err(Violation::new("C17", "header_decoder_agrees", "fields", format!("header decoder reports type {ty:?} tid {tid_v:#x} length {len}; bytes encode {want_ty:?} {want_tid:#x} {want_len}")));
        }
        if let Ok((fty, ftid)) = &full {
            if fty != ty || ftid != tid {
                return Err(Violation::new("C17", "header_decoder_agrees", "fields_vs_full_parse", "header decoder and full parser disagree on type / transaction id".to_string()));
            }
        }
    }
    Ok(())
}

// ================================================================================================
// C09: FINGERPRINT is the RFC CRC; corruption that leaves a FINGERPRINT in place is rejected

fn crc_judge(ctx: &mut Ctx, orig: &[u8], x: &[u8], what: &str) -> ScResult {
    if x == orig {
        return Ok(());
    }
    let lib = g("C09", "Message::from_bytes", || Message::from_bytes(x).map(|_| ()))?;
    // the TryFrom<&[u8]> entry point is the same receiver
    // the TryFrom<&[u8]> entry point is a receiver too (judged below by the same clauses, on its own)
    let via_try = g("C09", "Message::try_from", || Message::try_from(x).is_ok())?;
    let rf = refcodec::decode(x);
    ctx.st.cases += 1;
    // (iii) direct clause: a tolerant walk of the *whole* buffer still ends in a FINGERPRINT
    let (w, tiled) = if x.len() >= 20 { refcodec::walk(x, x.len()) } else { (vec![], false) };
    let fp_in_place = tiled && w.last().map(|a| a.ty == FP && a.len == 4).unwrap_or(false);
    if fp_in_place {
        ctx.st.inc("probe.corruption_left_fingerprint_in_place");
        if via_try && !lib.is_ok() {
            let v = Violation::new("C09", "corruption_rejected", "Message::try_from", format!("corrupted buffer ({what}) still carrying its FINGERPRINT was accepted by Message::try_from"));
            ev!(ctx, "  !! {} orig={} mutant={}", v.message, hex(orig), hex(x));
            return Err(v);
        }
        if lib.is_ok() {
            let v = Violation::new("C09", "corruption_rejected", what, format!("corrupted buffer ({what}) still carrying its FINGERPRINT was accepted; reference verdict: {:?}", match &rf { Verdict::Accept(_) => "accept".to_string(), Verdict::Reject(c) => format!("{c:?}") }));
            ev!(ctx, "  !! {} orig={} mutant={}", v.message, hex(orig), hex(x));
            return Err(v);
        }
    } else {
        ctx.st.inc("probe.corruption_dissolved_fingerprint");
    }
    // (ii) verdict equals the reference's
    let ref_ok = matches!(rf, Verdict::Accept(_));
    if lib.is_ok() != ref_ok {
        let v = Violation::new("C09", "verdict_equals_reference", what, format!("corrupted buffer ({what}): library {} but the reference decoder {}", if lib.is_ok() { "accepts" } else { "rejects" }, match &rf { Verdict::Accept(_) => "accepts".to_string(), Verdict::Reject(c) => format!("rejects {c:?}") }));
        ev!(ctx, "  !! {} orig={} mutant={}", v.message, hex(orig), hex(x));
        return Err(v);
    }
    if ref_ok {
        ctx.st.inc("probe.corrupted_buffer_legitimately_accepted");
    }
    Ok(())
}

/// A fingerprinted (unsigned) message whose CRC — the value the receiver computes — is a chosen
/// 32-bit value: 0, all-ones, the XOR constant or its complement (so that the value on the wire is
/// 0x5354554e, its complement, 0 or all-ones).  CRC-32 is affine in any four message bytes, so the
/// four bytes of a raw attribute placed last are solved for by Gaussian elimination over GF(2).
/// Sentinels ("0 means not computed / not present") live at exactly these values.
fn crafted_crc_spec(ctx: &mut Ctx) -> Option<(MsgSpec, u32)> {
    let pool = gen_addr_pool(ctx.ch, 3);
    let mut attrs = gen_attrs(ctx.ch, &pool, &SpecOpts { max_attrs: 2, big: 0 });
    attrs.retain(|a| !matches!(a, TAttr::Raw(0x7f03, _)));
    attrs.push(TAttr::Raw(0x7f03, vec![0; 4]));
    let mut spec = MsgSpec { class: ctx.ch.below(4) as u8, method: *ctx.ch.pick(&[1u16, 0, 0xfff, 3]), tid: gen_tid(ctx.ch), attrs, seals: vec![Seal::Fp] };
    let target = *ctx.ch.pick(&[0u32, u32::MAX, refcodec::FP_XOR, !refcodec::FP_XOR]);
    let m0 = spec.build();
    let n = m0.len();
    if n < 32 || m0[n - 16..n - 12] != [0x7f, 0x03, 0x00, 0x04] {
        return None;
    }
    let crc_of = |v: [u8; 4]| {
        let mut p = m0[..n - 8].to_vec();
        p[n - 12..n - 8].copy_from_slice(&v);
        refcodec::crc32_with_len(&p, (n - 20) as u16)
    };
    let c0 = crc_of([0; 4]);
    // columns of the linear part, reduced to a basis indexed by leading bit (Gaussian elimination)
    let mut basis: [Option<(u32, u32)>; 32] = [None; 32];
    for i in 0..32 {
        let mut c = crc_of((1u32 << i).to_be_bytes()) ^ c0;
        let mut mask = 1u32 << i;
        for bit in (0..32).rev() {
            if c >> bit & 1 == 0 {
                continue;
            }
            match basis[bit] {
                Some((bc, bm)) => {
                    c ^= bc;
                    mask ^= bm;
                }
                None => {
                    basis[bit] = Some((c, mask));
                    break;
                }
            }
        }
    }
    let mut want = target ^ c0;
    let mut sol = 0u32;
    for bit in (0..32).rev() {
        if want >> bit & 1 == 1 {
            match basis[bit] {
                Some((bc, bm)) => {
                    want ^= bc;
                    sol ^= bm;
                }
                None => return None,
            }
        }
    }
    if want != 0 || crc_of(sol.to_be_bytes()) != target {
        return None;
    }
    let k = spec.attrs.len() - 1;
    spec.attrs[k] = TAttr::Raw(0x7f03, sol.to_be_bytes().to_vec());
    Some((spec, target))
}

pub fn scenario_crc(ctx: &mut Ctx) -> ScResult {
    let creds = gen_creds(ctx.ch);
    let crafted = if ctx.ch.rare(1, 6) { crafted_crc_spec(ctx) } else { None };
    let (m, desc, spec) = match crafted {
        Some((spec, target)) => {
            ctx.st.inc("probe.message_with_crafted_crc_value");
            let b = spec.build();
            let d = format!("{} [crafted: receiver-side CRC = {target:#010x}]", spec.desc());
            (b, d, Some(spec))
        }
        None => gen_wellformed_spec(ctx, &creds, true, false, false),
    };
    let by_lib = spec.is_some();
    // (i'') a message the library's builder sealed with a FINGERPRINT that is not the CRC of its own
    // bytes never gets as far as the corruption loop (the reference refuses it): report it here
    if let Some((d, b)) = ctx.builder_fp_wrong.take() {
        let v = Violation::new("C09", "builder_value_is_rfc_crc", "library_builder", format!("the builder's FINGERPRINT is not the CRC of the message it ends ({d})"));
        ev!(ctx, "  !! {} {}", v.message, hex(&b));
        return Err(v);
    }
    ev!(ctx, "message {}B: {}", m.len(), desc);
    let n = m.len();
    // (i') every way the builder emits the message carries the RFC CRC of the emitted bytes:
    // write_into() a recycled (non-zero) buffer of exact or larger size, before and after into_owned()
    if let Some(spec) = &spec {
        let extra = ctx.ch.below(3) as usize * 4;
        let fill = *ctx.ch.pick(&[0xA5u8, 0xff, 0x01]);
        let outs: Vec<(&'static str, Vec<u8>)> = g("C09", "MessageBuilder::write_into", || {
            spec.with_builder(|b| {
                let mut v = vec![];
                let mut d = vec![fill; n + extra];
                if let Ok(k) = b.write_into(&mut d) {
                    d.truncate(k);
                    v.push(("write_into", d));
                }
                let o = b.clone().into_owned();
                let mut d2 = vec![fill; n + extra];
                if let Ok(k) = o.write_into(&mut d2) {
                    d2.truncate(k);
                    v.push(("into_owned+write_into", d2));
                }
                v.push(("into_owned+build", o.build()));
                v
            })
        })?;
        for (how, out) in outs {
            ctx.st.cases += 1;
            let k = out.len();
            let okcrc = k >= 28 && out[k - 4..] == (refcodec::crc32_with_len(&out[..k - 8], (k - 20) as u16) ^ refcodec::FP_XOR).to_be_bytes();
            let parses = g("C09", "Message::from_bytes", || Message::from_bytes(&out).is_ok())?;
            if !okcrc || !parses {
                let v = Violation::new("C09", "builder_value_is_rfc_crc", how, format!("the message emitted through {how} (destination pre-filled with {fill:#04x}) does not carry the CRC of its own bytes (crc relation holds: {okcrc}, parser accepts: {parses})"));
                ev!(ctx, "  !! {} {}", v.message, hex(&out));
                return Err(v);
            }
        }
    }
    // (i) the sender's value is the RFC CRC
    let want = refcodec::crc32_with_len(&m[..n - 8], (n - 20) as u16) ^ refcodec::FP_XOR;
    if m[n - 4..] != want.to_be_bytes() {
        let v = Violation::new("C09", "builder_value_is_rfc_crc", if by_lib { "library_builder" } else { "harness_encoder" }, format!("FINGERPRINT value {} but CRC-32(prefix with adjusted length) ^ 0x5354554e = {:08x}", hex(&m[n - 4..]), want));
        ev!(ctx, "  !! {}", v.message);
        return Err(v);
    }
    let r = g("C09", "Message::from_bytes", || Message::from_bytes(&m).map(|_| ()))?;
    if r.is_err() {
        return Err(Violation::new("C09", "uncorrupted_accepted", "Message::from_bytes", format!("well-formed fingerprinted message refused: {r:?}")));
    }
    // also: the library's own CRC primitive
    let lib_crc = g("C09", "Fingerprint::compute", || Fingerprint::compute(&m[..n - 8]))?;
    if u32::from_be_bytes(lib_crc) != refcodec::crc32(&m[..n - 8]) {
        return Err(Violation::new("C09", "builder_value_is_rfc_crc", "Fingerprint::compute", "Fingerprint::compute is not CRC-32/ISO-HDLC".to_string()));
    }
    let mh = fnv(FNV0, &m);
    // every single-bit flip
    for bit in 0..n * 8 {
        let mut x = m.clone();
        x[bit / 8] ^= 0x80 >> (bit % 8);
        crc_judge(ctx, &m, &x, "bit_flip")?;
    }
    ctx.st.add("enum.single_bit_flips", n as u64 * 8);
    ctx.st.add("fault.corrupt_bit", n as u64 * 8);
    // bursts: every width 2..=32 at every bit offset for short messages, sampled otherwise
    let thorough = ctx.cfg.thorough;
    let full_burst = n <= if thorough { 256 } else { 48 };
    let pats: [u32; 3] = [u32::MAX, 0xAAAA_AAAA, 0];
    let mut bursts = 0u64;
    if full_burst {
        let extra = ctx.ch.below(1 << 32) as u32;
        for width in 2..=32usize {
            for off in 0..=(n * 8 - width) {
                for p in pats.iter().chain(std::iter::once(&extra)) {
                    let mut x = m.clone();
                    burst(&mut x, off, width, *p);
                    crc_judge(ctx, &m, &x, "burst")?;
                    bursts += 1;
                }
            }
        }
        ctx.st.inc("enum.messages_with_all_bursts");
    } else {
        let k = if thorough { 20_000 } else { 3_000 };
        for _ in 0..k {
            let width = ctx.ch.range(2, 32) as usize;
            let off = ctx.ch.below((n * 8 - width) as u64 + 1) as usize;
            let p = match ctx.ch.below(4) {
                0 => u32::MAX,
                1 => 0xAAAA_AAAA,
                2 => 0,
                _ => ctx.ch.below(1 << 32) as u32,
            };
            let mut x = m.clone();
            burst(&mut x, off, width, p);
            crc_judge(ctx, &m, &x, "burst")?;
            bursts += 1;
        }
    }
    ctx.st.add("fault.burst", bursts);
    // structured 32-bit error patterns (each is a burst of at most 32 bits) on the CRC value and, for
    // short messages, on every aligned word: the XOR constant itself (a receiver that also accepts
    // the plain CRC), all-ones (an inverted CRC), the difference to a byte-swapped value, the
    // difference to the CRC computed without the length adjustment / without the final XOR
    {
        let crc_now = u32::from_be_bytes([m[n - 4], m[n - 3], m[n - 2], m[n - 1]]);
        let plain_no_adjust = refcodec::crc32(&m[..n - 8]) ^ refcodec::FP_XOR;
        // (... and to the CRC taken while the length field did not cover the FINGERPRINT yet: a sender
        // that appends the attribute like any other, computing its value first and the length last)
        let pre_len = refcodec::crc32_with_len(&m[..n - 8], (n - 8 - 20) as u16);
        let mut words: Vec<u32> = vec![crc_now ^ pre_len ^ refcodec::FP_XOR, crc_now ^ pre_len, refcodec::FP_XOR, u32::MAX, crc_now ^ crc_now.swap_bytes(), crc_now ^ plain_no_adjust, crc_now ^ refcodec::crc32(&m[..n - 8]), crc_now ^ !crc_now.rotate_left(8), 0x5354_0000, 0x0000_554e];
        words.retain(|w| *w != 0);
        let mut structured = 0u64;
        let offs: Vec<usize> = if n <= 96 { (0..=n - 4).collect() } else { vec![n - 4, n - 8, 0, 4, 8, 16, 20] };
        for off in offs {
            for w in &words {
                let mut x = m.clone();
                for (i, b) in w.to_be_bytes().iter().enumerate() {
                    x[off + i] ^= b;
                }
                crc_judge(ctx, &m, &x, if off == n - 4 { "structured_pattern_on_crc_value" } else { "structured_pattern" })?;
                structured += 1;
            }
        }
        ctx.st.add("fault.structured_word_pattern", structured);
    }
    // byte substitutions: all for short messages, sampled otherwise
    let mut subs = 0u64;
    if n <= if thorough { 64 } else { 32 } {
        for i in 0..n {
            for d in 1..=255u8 {
                let mut x = m.clone();
                x[i] ^= d;
                crc_judge(ctx, &m, &x, "byte_substitution")?;
                subs += 1;
            }
        }
        ctx.st.inc("enum.messages_with_all_byte_substitutions");
    } else {
        for _ in 0..(if thorough { 8000 } else { 1500 }) {
            let i = ctx.ch.below(n as u64) as usize;
            let d = ctx.ch.range(1, 255) as u8;
            let mut x = m.clone();
            x[i] ^= d;
            crc_judge(ctx, &m, &x, "byte_substitution")?;
            subs += 1;
        }
    }
    ctx.st.add("fault.corrupt_byte", subs);
    ctx.st.cases_nontrivial = ctx.st.cases;
    ctx.case_hashes.push(mh);
    ev!(ctx, "  {} bit flips, {} bursts, {} byte substitutions judged", n * 8, bursts, subs);
    ctx.st.nontrivial = true;
    Ok(())
}

// ================================================================================================
// C04: sealed messages verify, anything else does not

fn alg_type(a: IntegrityAlgorithm) -> u16 {
    match a {
        IntegrityAlgorithm::Sha1 => MI,
        IntegrityAlgorithm::Sha256 => MI256,
    }
}

pub fn scenario_tamper(ctx: &mut Ctx) -> ScResult {
    let creds = gen_creds(ctx.ch);
    let (m, desc, spec) = gen_wellformed_spec(ctx, &creds, false, true, false);
    let by_lib = spec.is_some();
    ev!(ctx, "message {}B key={}: {}", m.len(), creds.short_desc(), desc);
    if m.len() > 4000 {
        ctx.st.inc("probe.large_sealed_message");
    }
    let Verdict::Accept(view) = refcodec::decode(&m) else { unreachable!() };
    let status = refcodec::integrity_status(&m, &view, &creds.reference());
    // the sender's seal is the RFC 8489 MAC (key derivation, HMAC input) on the sending side too
    if by_lib {
        if let Some(bad) = status.iter().find(|s| !s.2) {
            let v = Violation::new("C04", "builder_seal_is_rfc_mac", if bad.1 == MI { "sha1" } else { "sha256" }, format!("the builder's {} value is not HMAC(key, bytes before the attribute with the length field set to its end) under {}", if bad.1 == MI { "MESSAGE-INTEGRITY" } else { "MESSAGE-INTEGRITY-SHA256" }, creds.short_desc()));
            ev!(ctx, "  !! {}", v.message);
            return Err(v);
        }
    }
    let lc = creds.lib();
    // (a) untampered, right key
    let r = g("C04", "Message::validate_integrity", || Message::from_bytes(&m).map_err(|e| format!("parse: {e:?}")).and_then(|msg| msg.validate_integrity(&lc).map_err(|e| format!("{e:?}"))))?;
    let alg = match r {
        Ok(a) => a,
        Err(e) => {
            let v = Violation::new("C04", "sealed_message_validates", &tail_names(&view), format!("every integrity attribute present is correct for the key, but validation answered {e}"));
            ev!(ctx, "  !! {}", v.message);
            return Err(v);
        }
    };
    let checked = status.iter().find(|s| s.1 == alg_type(alg));
    match checked {
        Some(s) if s.2 => {}
        _ => {
            let v = Violation::new("C04", "reported_algorithm_present_and_correct", &tail_names(&view), format!("validation reported {alg:?} but no correct attribute of that algorithm is in the message"));
            ev!(ctx, "  !! {}", v.message);
            return Err(v);
        }
    }
    let checked_idx = checked.unwrap().0;
    // (a') a sender does not always call build(): every way the builder emits the sealed message
    // (write_into() a recycled, non-zero transmit buffer of exact or larger size, before and after
    // into_owned()) must give the receiver a message that validates under K
    if let Some(spec) = &spec {
        let n = m.len();
        let extra = ctx.ch.below(3) as usize * 4;
        let fill = *ctx.ch.pick(&[0xA5u8, 0xff, 0x01]);
        let outs: Vec<(&'static str, Vec<u8>)> = g("C04", "MessageBuilder::write_into", || {
            spec.with_builder(|b| {
                let mut v = vec![];
                let mut d = vec![fill; n + extra];
                if let Ok(k) = b.write_into(&mut d) {
                    d.truncate(k);
                    v.push(("write_into", d));
                }
                let o = b.clone().into_owned();
                let mut d2 = vec![fill; n + extra];
                if let Ok(k) = o.write_into(&mut d2) {
                    d2.truncate(k);
                    v.push(("into_owned+write_into", d2));
                }
                v.push(("into_owned+build", o.build()));
                v
            })
        })?;
        for (how, out) in outs {
            ctx.st.cases += 1;
            let r = g("C04", "Message::validate_integrity", || Message::from_bytes(&out).map_err(|e| format!("parse: {e:?}")).and_then(|msg| msg.validate_integrity(&lc).map_err(|e| format!("{e:?}"))))?;
            if let Err(e) = r {
                let v = Violation::new("C04", "sealed_message_validates", how, format!("the sealed message emitted through {how} (destination pre-filled with {fill:#04x}) does not validate under its own key: {e}"));
                ev!(ctx, "  !! {} {}", v.message, hex(&out));
                return Err(v);
            }
        }
    }
    // tampering range: byte 0 up to the end of the last *exposed* integrity attribute (for the
    // builder's own [MI, MI-SHA256] both are exposed, so damage to either must be noticed; an
    // integrity attribute hidden behind the first one is outside what is claimed)
    let last_exposed_int = view.exposed.iter().copied().filter(|&i| view.all[i].ty == MI || view.all[i].ty == MI256).max().unwrap_or(checked_idx).max(checked_idx);
    let end = view.all[last_exposed_int].off + 4 + refcodec::pad4(view.all[last_exposed_int].len);
    ctx.st.cases += 1;
    // (b) tampering: every single-bit flip from byte 0 to the end of the checked integrity attribute
    let mut judged = 0u64;
    let mut tamper = |ctx: &mut Ctx, x: &[u8], what: &'static str, pos: usize| -> ScResult {
        let r = g("C04", "Message::validate_integrity", || match Message::from_bytes(x) {
            Err(_) => Err(true),
            Ok(msg) => msg.validate_integrity(&lc).map_err(|_| false),
        })?;
        // the same through the TryFrom<&[u8]> entry point
        let r2 = g("C04", "Message::validate_integrity", || match Message::try_from(x) {
            Err(_) => Err(true),
            Ok(msg) => msg.validate_integrity(&lc).map_err(|_| false),
        })?;
        // (judged on its own: only an Ok through try_from that the reference does not vouch for is a
        // violation; the two entry points need not agree)
        if let (Ok(a2), false) = (&r2, r.is_ok()) {
            let legit2 = match refcodec::decode(x) {
                Verdict::Accept(v2) => refcodec::ok_verdict_acceptable(&refcodec::integrity_status(x, &v2, &creds.reference()), &v2.exposed, Some(alg_type(*a2))),
                _ => false,
            };
            if !legit2 {
                let v = Violation::new("C04", "tamper_detected", "Message::try_from", format!("{what} at byte {pos}: through Message::try_from the parser accepted it and validation answered Ok({a2:?})"));
                return Err(v);
            }
        }
        ctx.st.cases += 1;
        match r {
            Err(true) => ctx.st.inc("out.tamper_rejected_by_parser"),
            Err(false) => ctx.st.inc("out.tamper_failed_validation"),
            Ok(a) => {
                // only legitimate if the reference agrees that a correct attribute of `a` is there
                // (every exposed integrity attribute still correct, the reported one among them)
                let legit = match refcodec::decode(x) {
                    Verdict::Accept(v2) => {
                        let st = refcodec::integrity_status(x, &v2, &creds.reference());
                        refcodec::ok_verdict_acceptable(&st, &v2.exposed, Some(alg_type(a)))
                    }
                    _ => false,
                };
                if !legit {
                    let region = if pos < 2 { "message_type" } else if pos < 4 { "length_field" } else if pos < 8 { "magic_cookie" } else if pos < 20 { "transaction_id" } else if pos >= view.all[checked_idx].off { "integrity_attribute" } else { "attributes" };
                    let v = Violation::new("C04", "tamper_detected", region, format!("{what} at byte {pos} ({region}) of a sealed {}-byte message: parser accepted it and validation answered Ok({a:?})", x.len()));
                    ev!(ctx, "  !! {} orig={} mutant={}", v.message, hex(&m), hex(x));
                    return Err(v);
                }
                ctx.st.inc("probe.tampered_but_still_authentic_per_reference");
            }
        }
        Ok(())
    };
    for bit in 0..end * 8 {
        let mut x = m.clone();
        x[bit / 8] ^= 0x80 >> (bit % 8);
        tamper(ctx, &x, "bit flip", bit / 8)?;
        judged += 1;
    }
    ctx.st.add("enum.single_bit_flips", end as u64 * 8);
    ctx.st.add("fault.corrupt_bit", end as u64 * 8);
    // byte substitutions (sampled), padding bytes included
    let nsub = if ctx.cfg.thorough { 2000 } else { 300 };
    for _ in 0..nsub {
        let i = ctx.ch.below(end as u64) as usize;
        let d = ctx.ch.range(1, 255) as u8;
        let mut x = m.clone();
        x[i] ^= d;
        tamper(ctx, &x, "byte substitution", i)?;
        judged += 1;
    }
    ctx.st.add("fault.corrupt_byte", nsub);
    let _ = judged;
    // (b') re-sealed by a non-conforming peer: the HMAC computed over the message *with the length
    // field as finally sent* (covering what follows the integrity attribute) instead of RFC 8489
    // s14.5's "length set to the end of the integrity attribute" — a known interoperability mistake;
    // with anything following the attribute this is not the RFC MAC and must not validate
    for a in view.all.iter().filter(|a| (a.ty == MI && a.len == 20) || (a.ty == MI256 && a.len == 32)) {
        let attr_end = a.off + 4 + a.len;
        if attr_end >= m.len() || a.off + 4 + a.len > end {
            continue;
        }
        let key = creds.reference().key();
        let mac = if a.ty == MI { refcodec::hmac_sha1(&key, &m[..a.off]) } else { refcodec::hmac_sha256(&key, &m[..a.off]) };
        let mut x = m.clone();
        x[a.off + 4..a.off + 4 + a.len].copy_from_slice(&mac[..a.len]);
        if x == m {
            continue;
        }
        if view.all.last().map(|l| l.ty) == Some(FP) {
            refcodec::refingerprint(&mut x);
        }
        ctx.st.inc("fault.mac_over_final_message_length");
        tamper(ctx, &x, "integrity attribute re-computed over the final message length", a.off)?;
    }
    // (b'') structural tampering: an attribute inserted in front of the integrity attribute (random,
    // MAC echo, copy of the integrity attribute), every other byte as it was, length and FINGERPRINT
    // corrected — no key needed; must be refused or fail validation like any other change
    for _ in 0..4 {
        if let Some((x, at)) = insert_before_integrity(ctx, &m, &view) {
            tamper(ctx, &x, "attribute inserted in front of the integrity attribute", at)?;
        }
    }
    // (c) other keys
    for _ in 0..6 {
        let other = gen_other_creds(ctx.ch, &creds);
        let lo = other.lib();
        // the right key immediately before the wrong one (and after the previous wrong one):
        // whatever the library remembers from one derivation or validation must not carry over
        let again = g("C04", "Message::validate_integrity", || Message::from_bytes(&m).unwrap().validate_integrity(&lc).is_ok())?;
        if !again {
            let v = Violation::new("C04", "sealed_message_validates", "after_other_key", format!("the sealed message no longer validates under its own key {} after a validation under another key", creds.short_desc()));
            ev!(ctx, "  !! {}", v.message);
            return Err(v);
        }
        let r = g("C04", "Message::validate_integrity", || Message::from_bytes(&m).unwrap().validate_integrity(&lo).map_err(|e| format!("{e:?}")))?;
        ctx.st.cases += 1;
        ctx.st.inc("fault.key_mismatch");
        if let Ok(a) = r {
            let v = Violation::new("C04", "other_key_rejected", match (&creds, &other) { (Creds::Short(_), Creds::Short(_)) => "short_vs_short", (Creds::Long { .. }, Creds::Long { .. }) => "long_vs_long", _ => "kind_mismatch" }, format!("message sealed under {} validates ({a:?}) under {}", creds.short_desc(), other.short_desc()));
            ev!(ctx, "  !! {}", v.message);
            return Err(v);
        }
    }
    // (d) no integrity attribute => reported missing
    let plain = MsgSpec { class: 0, method: 1, tid: 7, attrs: vec![TAttr::Software("s".into())], seals: if ctx.ch.coin() { vec![Seal::Fp] } else { vec![] } }.build();
    let r = g("C04", "Message::validate_integrity", || Message::from_bytes(&plain).unwrap().validate_integrity(&lc).map_err(|e| matches!(e, StunParseError::MissingAttribute(_))))?;
    if r != Err(true) {
        return Err(Violation::new("C04", "missing_integrity_reported", "validate_integrity", format!("message without an integrity attribute: {r:?}")));
    }
    // (f) foreign message with one correct and one incorrect MAC: either verdict, but an Ok must name a correct attribute
    {
        let rc = creds.reference();
        let mut fm = RefMsg::new(0, 1, gen_tid(ctx.ch));
        fm.items.push(RefItem::Attr { ty: 0x8022, value: b"ab".to_vec(), pad: 0 });
        let f = Some((ctx.ch.below(20) as usize, 1u8 << ctx.ch.below(8)));
        let order = ctx.ch.below(4);
        let (f1, f2) = if order & 1 == 0 { (f, None) } else { (None, f) };
        if order & 2 == 0 {
            fm.items.push(RefItem::Mac1 { creds: rc.clone(), flip: f1 });
            fm.items.push(RefItem::Mac256 { creds: rc.clone(), len: 32, flip: f2 });
        } else {
            fm.items.push(RefItem::Mac256 { creds: rc.clone(), len: 32, flip: f1 });
            fm.items.push(RefItem::Mac1 { creds: rc.clone(), flip: f2 });
        }
        let x = fm.encode();
        let r = g("C04", "Message::validate_integrity", || Message::from_bytes(&x).map_err(|e| format!("{e:?}")).and_then(|m| m.validate_integrity(&lc).map_err(|e| format!("{e:?}"))))?;
        ctx.st.cases += 1;
        if let Ok(a) = r {
            let Verdict::Accept(v2) = refcodec::decode(&x) else { unreachable!() };
            let st = refcodec::integrity_status(&x, &v2, &rc);
            if !st.iter().any(|s| s.1 == alg_type(a) && s.2) {
                let v = Violation::new("C04", "reported_algorithm_present_and_correct", "mixed_pair", format!("pair with one wrong MAC: validation reported {a:?}, whose attribute is the wrong one"));
                ev!(ctx, "  !! {}", v.message);
                return Err(v);
            }
            // an Ok is acceptable only if a correct attribute of the reported algorithm lies after
            // every wrong exposed one (refcodec::ok_verdict_acceptable): a wrong MAC *after* the last
            // correct one is byte for byte what tampering with a correctly sealed message produces
            if !refcodec::ok_verdict_acceptable(&st, &v2.exposed, Some(alg_type(a))) {
                let v = Violation::new("C04", "tamper_detected", "wrong_mac_after_the_last_correct_one", format!("validation answered Ok({a:?}) although a wrong exposed integrity attribute follows the last correct {a:?} attribute"));
                ev!(ctx, "  !! {} {}", v.message, hex(&x));
                return Err(v);
            }
        }
    }
    // (g) a SHA-256 attribute of a length RFC 8489 does not allow (shorter than 16, longer than 32 or
    // not a multiple of 4) never validates, even when it carries the right HMAC prefix
    {
        let rc = creds.reference();
        let mut fm = RefMsg::new(ctx.ch.below(4) as u8, 1, gen_tid(ctx.ch));
        fm.items.push(RefItem::Attr { ty: 0x8022, value: b"ab".to_vec(), pad: 0 });
        let len = *ctx.ch.pick(&[0usize, 1, 4, 8, 12, 15, 17, 18, 19, 22, 30, 31, 33, 36, 48, 64]);
        fm.items.push(RefItem::Mac256 { creds: rc.clone(), len, flip: None });
        if ctx.ch.coin() {
            fm.items.push(RefItem::Fp { flip: None });
        }
        let x = fm.encode();
        let r = g("C04", "Message::validate_integrity", || Message::from_bytes(&x).map_err(|e| format!("{e:?}")).and_then(|m| m.validate_integrity(&lc).map_err(|e| format!("{e:?}"))))?;
        ctx.st.cases += 1;
        ctx.st.inc("fault.irregular_truncated_mac");
        if let Ok(a) = r {
            let v = Violation::new("C04", "truncation_rule", "irregular_sha256_length", format!("a MESSAGE-INTEGRITY-SHA256 of {len} bytes (not 16..=32 in steps of 4) carrying the HMAC prefix validates (Ok({a:?}))"));
            ev!(ctx, "  !! {} {}", v.message, hex(&x));
            return Err(v);
        }
    }
    ctx.st.cases_nontrivial = ctx.st.cases;
    ctx.case_hashes.push(fnv(FNV0, &m));
    ctx.st.nontrivial = true;
    Ok(())
}

fn tail_names(view: &refcodec::RefView) -> String {
    let fi = view.first_integrity.unwrap_or(view.all.len());
    let n: Vec<String> = view.all[fi..]
        .iter()
        .map(|a| match a.ty {
            MI => "MI".to_string(),
            MI256 => format!("MI256/{}", a.len),
            FP => "FP".to_string(),
            t => format!("{t:#x}"),
        })
        .collect();
    format!("tail=[{}]", n.join(","))
}

// ================================================================================================
// C10: only authenticated attributes are exposed after an integrity attribute

fn gen_tail(ch: &mut Choices, creds: &Creds, other: &Creds) -> Vec<RefItem> {
    // any order and subset of {MI, MI256, FP} (legal and illegal), MACs right or wrong
    let mut kinds = vec![0u8, 1, 2];
    // shuffle
    for i in (1..kinds.len()).rev() {
        let j = ch.below(i as u64 + 1) as usize;
        kinds.swap(i, j);
    }
    let n = ch.range(0, 3) as usize;
    kinds.truncate(n);
    let mut v = vec![];
    for k in kinds {
        let c = if ch.rare(1, 3) { other.reference() } else { creds.reference() };
        let flip = if ch.rare(1, 5) { Some((ch.below(16) as usize, 1u8 << ch.below(8))) } else { None };
        match k {
            0 => v.push(RefItem::Mac1 { creds: c, flip }),
            1 => {
                // one time in eight the SHA-256 attribute has an irregular length (the parser looks at
                // types only and accepts it; it is an integrity attribute for the exposure rule all the
                // same, and it never validates)
                let len = if ch.rare(1, 8) { *ch.pick(&[0usize, 4, 8, 12, 15, 17, 18, 22, 30, 33, 36, 64]) } else { *ch.pick(&[32usize, 16, 20, 24, 28]) };
                v.push(RefItem::Mac256 { creds: c, len, flip })
            }
            _ => {
                // one time in ten the FINGERPRINT is over-long: the right CRC followed by 4..12 more bytes
                if ch.rare(1, 10) {
                    v.push(RefItem::FpLong { extra: *ch.pick(&[4usize, 8, 12]) })
                } else {
                    v.push(RefItem::Fp { flip: None })
                }
            }
        }
    }
    // one time in ten the MESSAGE-INTEGRITY has an irregular length (the parser looks at types only;
    // for the exposure rule it is an integrity attribute all the same)
    if ch.rare(1, 10) {
        for it in v.iter_mut() {
            if matches!(it, RefItem::Mac1 { .. }) {
                let l = *ch.pick(&[0usize, 1, 4, 19, 21, 22, 24, 32]);
                *it = RefItem::Attr { ty: MI, value: ch.bytes(l), pad: 0 };
                break;
            }
        }
    }
    if ch.rare(1, 8) {
        // an ordinary attribute smuggled in after the integrity attribute (must be refused or hidden)
        let pos = ch.below(v.len() as u64 + 1) as usize;
        v.insert(pos, RefItem::Attr { ty: *ch.pick(&[0x8022u16, 0x0006, 0x7f00, 0x0020]), value: b"evil".to_vec(), pad: 0 });
    }
    v
}

fn lib_view(prop: &str, x: &[u8]) -> Result<Option<Vec<(u16, Vec<u8>)>>, Violation> {
    g(prop, "Message::iter_attributes", || Message::from_bytes(x).ok().map(|m| m.iter_attributes().map(|a| (a.get_type().value(), a.value.to_vec())).collect()))
}

pub fn scenario_tailsplice(ctx: &mut Ctx) -> ScResult {
    let creds = gen_creds(ctx.ch);
    let other = gen_other_creds(ctx.ch, &creds);
    let lc = creds.lib();
    // 1. foreign peer: 0–4 ordinary attributes, then a drawn tail
    let mut fm = RefMsg::new(ctx.ch.below(4) as u8, 1, gen_tid(ctx.ch));
    let n = ctx.ch.range(0, 4);
    for _ in 0..n {
        fm.items.push(gen_foreign_attr(ctx.ch));
    }
    let tail = gen_tail(ctx.ch, &creds, &other);
    fm.items.extend(tail);
    if ctx.ch.rare(1, 40) {
        // a message sized to the very end of the 16-bit length range: the tail attributes end within
        // the last few bytes before offset 65 556 (absolute offsets above 65 535 do not fit in 16 bits)
        let base = fm.encode().len();
        let delta = *ctx.ch.pick(&[0usize, 4, 8, 12, 16, 20, 24, 28, 32, 36, 40, 44, 1, 2, 3]);
        let l = 65_552usize.saturating_sub(base + 4 + delta);
        if l > 60_000 {
            fm.items.insert(0, RefItem::Attr { ty: 0x7f01, value: ctx.ch.bytes(l), pad: 0 });
            ctx.st.inc("probe.message_at_16bit_length_limit");
        }
    }
    let x = fm.encode();
    ev!(ctx, "foreign message {}B: {:?}", x.len(), fm.items.iter().map(item_name).collect::<Vec<_>>());
    judge_exposure(ctx, &x, &lc, &creds.reference())?;
    // 2. attacker rewrites the tail of a library-built, signed message in flight
    let pool = gen_addr_pool(ctx.ch, 3);
    let attrs = gen_attrs(ctx.ch, &pool, &SpecOpts { max_attrs: 4, big: 0 });
    let variant = ctx.ch.range(2, 7);
    let spec = MsgSpec { class: ctx.ch.below(4) as u8, method: 1, tid: gen_tid(ctx.ch), attrs, seals: seals_of(variant, &creds) };
    let m = spec.build();
    ev!(ctx, "library message {}B: {}", m.len(), spec.desc());
    judge_exposure(ctx, &m, &lc, &creds.reference())?;
    let Verdict::Accept(view) = refcodec::decode(&m) else {
        return Err(Violation::new("C10", "builder_output_wellformed", "reference_rejects", format!("reference decoder rejects the builder's output: {:?}", refcodec::decode(&m))));
    };
    let Some(fi) = view.first_integrity else {
        // the builder declined to seal (e.g. an empty password): nothing to rewrite
        ctx.st.inc("probe.builder_declined_to_seal");
        ctx.st.cases_nontrivial = ctx.st.cases;
        ctx.st.nontrivial = true;
        return Ok(());
    };
    let cut = view.all[fi].off + 4 + refcodec::pad4(view.all[fi].len);
    let before = lib_view("C10", &m)?.unwrap_or_default();
    let prefix_exposed: Vec<(u16, Vec<u8>)> = before.iter().take(fi + 1).cloned().collect();
    for _ in 0..4 {
        // new tail: what follows the first integrity attribute is replaced
        let mut y = m[..cut].to_vec();
        let first_ty = view.all[fi].ty;
        let mut items = gen_tail(ctx.ch, &creds, &other);
        // a repeat of the first integrity attribute's type is generated too (must be refused)
        if !ctx.ch.rare(1, 6) {
            items.retain(|i| !matches!((i, first_ty), (RefItem::Mac1 { .. }, MI) | (RefItem::Mac256 { .. }, MI256)));
        }
        // encode the items on top of y
        let mut tmp = RefMsg { type_field: ((y[0] as u16) << 8) | y[1] as u16, cookie: refcodec::COOKIE, tid: view.tid, items: vec![] };
        // re-create the prefix as opaque attributes so that MACs / CRC of the new tail are computed over it
        for a in &view.all[..=fi] {
            let val = a.value(&m).to_vec();
            let padb = if a.len % 4 != 0 { m[a.off + 4 + a.len] } else { 0 };
            tmp.items.push(RefItem::Attr { ty: a.ty, value: val, pad: padb });
        }
        tmp.items.extend(items);
        y = tmp.encode();
        if y[..cut] != m[..cut] && y[4..cut] != m[4..cut] {
            // (the length field differs by construction; everything else up to `cut` must be the same)
            return Err(Violation::new("C10", "harness", "prefix_changed", "tail rewrite changed the authenticated prefix".into()));
        }
        ctx.st.inc("fault.tail_rewrite");
        ev!(ctx, "  tail rewritten -> {}B {:?}", y.len(), tmp.items[fi + 1..].iter().map(item_name).collect::<Vec<_>>());
        judge_exposure(ctx, &y, &lc, &creds.reference())?;
        if let Some(after) = lib_view("C10", &y)? {
            let pa: Vec<(u16, Vec<u8>)> = after.iter().take(fi + 1).cloned().collect();
            if pa != prefix_exposed {
                let v = Violation::new("C10", "prefix_unchanged_by_tail_rewrite", "iter_attributes", "replacing the bytes after the first integrity attribute changed the attributes exposed before it".to_string());
                ev!(ctx, "  !! {}", v.message);
                return Err(v);
            }
        }
        ctx.st.cases += 1;
    }
    // 3. the attacker simply appends attribute-shaped bytes to the signed message without touching
    // its length field (a stream read that returns more than one message looks the same)
    for _ in 0..2 {
        let mut y = m.clone();
        let extra: Vec<u8> = match ctx.ch.below(4) {
            0 => vec![0x80, 0x28, 0x00, 0x04, 1, 2, 3, 4],
            1 => vec![0x80, 0x22, 0x00, 0x04, b'e', b'v', b'i', b'l'],
            2 => {
                let mut e = vec![0x00, 0x1c, 0x00, 0x20];
                e.extend(ctx.ch.bytes(32));
                e
            }
            _ => {
                let mut e = vec![0x00, 0x06, 0x00, 0x04, b'r', b'o', b'o', b't'];
                e.extend_from_slice(&[0x80, 0x28, 0x00, 0x04, 9, 9, 9, 9]);
                e
            }
        };
        y.extend_from_slice(&extra);
        ctx.st.inc("fault.bytes_appended_after_signed_message");
        judge_exposure(ctx, &y, &lc, &creds.reference())?;
        if let Some(after) = lib_view("C10", &y)? {
            let pa: Vec<(u16, Vec<u8>)> = after.iter().take(fi + 1).cloned().collect();
            if pa != prefix_exposed || after.len() > before.len() {
                let v = Violation::new("C10", "exposure", "bytes_appended_after_message", format!("{} attribute-shaped bytes appended after a signed {}-byte message (length field untouched): the message was accepted and now exposes {} attributes instead of {}", extra.len(), m.len(), after.len(), before.len()));
                ev!(ctx, "  !! {}", v.message);
                return Err(v);
            }
        }
        ctx.st.cases += 1;
    }
    // 4. the attacker inserts an attribute in front of the integrity attribute (random bytes, an echo
    // of the MAC, a copy of the integrity attribute), MAC untouched, FINGERPRINT recomputed
    for _ in 0..3 {
        if let Some((y, _)) = insert_before_integrity(ctx, &m, &view) {
            judge_exposure(ctx, &y, &lc, &creds.reference())?;
            ctx.st.cases += 1;
        }
    }
    ctx.st.cases_nontrivial = ctx.st.cases;
    ctx.st.nontrivial = true;
    Ok(())
}

/// An on-path attacker without the key inserts one attribute *in front of* the first integrity
/// attribute of a sealed message (at the start of attribute `j`, j <= index of that attribute),
/// leaves every other byte — the MAC included — as it was, corrects the header length and, when the
/// message ended in a FINGERPRINT, recomputes it (no key needed).  The inserted value is random, or
/// an echo of the MAC (the value of the first or of the last integrity attribute, optionally followed
/// by a few more bytes), or a copy of the whole integrity attribute.  The HMAC covers everything in
/// front of its attribute, so no correct MAC can survive this; a validator that locates "its"
/// attribute or "its" input by anything other than the attribute walk may be fooled.
/// Returns the forged buffer and the insertion offset.
fn insert_before_integrity(ctx: &mut Ctx, m: &[u8], view: &refcodec::RefView) -> Option<(Vec<u8>, usize)> {
    let fi = view.first_integrity?;
    let j = if ctx.ch.coin() { fi } else { ctx.ch.below(fi as u64 + 1) as usize };
    let at = view.all[j].off;
    let ints: Vec<usize> = (0..view.all.len()).filter(|&i| view.all[i].ty == MI || view.all[i].ty == MI256).collect();
    let mut val: Vec<u8> = match ctx.ch.below(5) {
        0 => {
            let n = ctx.ch.range(1, 6) as usize * 4;
            ctx.ch.bytes(n)
        }
        1 | 2 => view.all[fi].value(m).to_vec(),
        3 => view.all[*ints.last()?].value(m).to_vec(),
        _ => {
            let a = &view.all[fi];
            m[a.off..a.off + 4 + a.len].to_vec()
        }
    };
    let extra = *ctx.ch.pick(&[0usize, 0, 4, 8, 3]);
    let more = ctx.ch.bytes(extra);
    val.extend_from_slice(&more);
    let ty = *ctx.ch.pick(&[0x8022u16, 0xc057, 0x802b, 0x0013]);
    let mut y = m[..at].to_vec();
    y.extend_from_slice(&ty.to_be_bytes());
    y.extend_from_slice(&(val.len() as u16).to_be_bytes());
    y.extend_from_slice(&val);
    while y.len() % 4 != 0 {
        y.push(0);
    }
    y.extend_from_slice(&m[at..]);
    if y.len() - 20 > 0xffff {
        return None;
    }
    let l = (y.len() - 20) as u16;
    y[2..4].copy_from_slice(&l.to_be_bytes());
    if view.all.last().map(|a| a.ty) == Some(FP) {
        refcodec::refingerprint(&mut y);
    }
    ctx.st.inc("fault.attribute_inserted_before_integrity");
    Some((y, at))
}

fn judge_exposure(ctx: &mut Ctx, x: &[u8], lc: &MessageIntegrityCredentials, rc: &refcodec::RefCreds) -> ScResult {
    let parsed = g("C10", "Message::from_bytes", || Message::from_bytes(x))?;
    let rf = refcodec::decode(x);
    ctx.st.cases += 1;
    ctx.case_hashes.push(fnv(FNV0, x));
    match (&parsed, &rf) {
        (Ok(msg), Verdict::Accept(view)) => {
            ctx.st.inc("verdict.accepted");
            if let Err(v) = g("C10", "compare_view", || compare_view(x, msg, view, "C10").and_then(|_| if x[x.len() / 2] & 3 == 0 { crate::pipeline::compare_clone(x, msg, view, "C10") } else { Ok(()) }))? {
                ev!(ctx, "  !! {} [{}] {}", v.clause, v.site, v.message);
                return Err(v);
            }
            // "every exposed attribute ... lies inside the byte range covered by the HMAC that
            // validate_integrity checks": in an accepted message every integrity attribute comes after
            // all ordinary attributes, so whichever one validation reports covers them — provided one
            // of that algorithm is really there (exposed or not: an implementation that also verifies
            // the hidden one checks more, not less)
            let r = g("C10", "Message::validate_integrity", || msg.validate_integrity(lc))?;
            if let Ok(a) = r {
                let ty = alg_type(a);
                if !view.all.iter().any(|x| x.ty == ty) {
                    let v = Violation::new("C10", "validated_attribute_covers_exposed", &tail_names(view), format!("validate_integrity reported {a:?}, but the message carries no attribute of that algorithm"));
                    ev!(ctx, "  !! {}", v.message);
                    return Err(v);
                }
                // ... and the HMAC it checked must be a real one: an attribute of that algorithm whose
                // value is the RFC MAC of everything in front of it.  (Which of several correct ones
                // it reports, and whether a wrong one elsewhere makes it refuse, is C04's business.)
                let st = refcodec::integrity_status(x, view, rc);
                if !st.iter().any(|s| s.1 == ty && s.2) {
                    let v = Violation::new("C10", "validated_attribute_covers_exposed", "no_correct_mac_of_reported_algorithm", format!("validate_integrity reported {a:?} for a {}-byte message ({}), but no attribute of that algorithm carries the HMAC of the bytes in front of it: the exposed attributes are not inside the byte range of any HMAC that was checked", x.len(), tail_names(view)));
                    ev!(ctx, "  !! {} {}", v.message, hex(x));
                    return Err(v);
                }
                ctx.st.inc("probe.validate_integrity_ok");
            }
            // policing is a lookup too: what `check_attribute_types` says about a *request* may only
            // depend on exposed attributes — a type that is present only hidden behind an integrity
            // attribute is neither reported as unknown nor counted as present
            if msg.has_class(MessageClass::Request) {
                let exposed: Vec<u16> = view.exposed.iter().map(|&i| view.all[i].ty).collect();
                let hidden: Vec<u16> = view.all.iter().map(|a| a.ty).filter(|t| !exposed.contains(t)).collect();
                if !hidden.is_empty() {
                    ctx.st.inc("probe.policing_with_hidden_attribute");
                    let unknown = g("C10", "Message::check_attribute_types", || {
                        Message::check_attribute_types(msg, &[], &[]).map(|b| b.build()).and_then(|bytes| Message::from_bytes(&bytes).ok().and_then(|m| m.raw_attribute(AttributeType::new(0x000a)).map(|a| a.value.chunks(2).filter(|c| c.len() == 2).map(|c| ((c[0] as u16) << 8) | c[1] as u16).collect::<Vec<u16>>())))
                    })?;
                    if let Some(list) = unknown {
                        if let Some(t) = list.iter().find(|t| hidden.contains(t)) {
                            let v = Violation::new("C10", "policing_sees_exposed_only", &tail_names(view), format!("check_attribute_types lists type {t:#06x} as unknown; it occurs only hidden behind the first integrity attribute ({})", tail_names(view)));
                            ev!(ctx, "  !! {}", v.message);
                            return Err(v);
                        }
                    }
                    let all_types: Vec<AttributeType> = view.all.iter().map(|a| AttributeType::new(a.ty)).collect();
                    for h in &hidden {
                        let req = [AttributeType::new(*h)];
                        let verdict = g("C10", "Message::check_attribute_types", || Message::check_attribute_types(msg, &all_types, &req).is_some())?;
                        if !verdict {
                            let v = Violation::new("C10", "policing_sees_exposed_only", &tail_names(view), format!("check_attribute_types treats required type {h:#06x} as present; it occurs only hidden behind the first integrity attribute ({})", tail_names(view)));
                            ev!(ctx, "  !! {}", v.message);
                            return Err(v);
                        }
                    }
                }
            }
            // FINGERPRINT always exposed
            if view.all.last().map(|a| a.ty) == Some(FP) && !msg.has_attribute(AttributeType::new(FP)) {
                let v = Violation::new("C10", "fingerprint_always_exposed", &tail_names(view), "the message carries a FINGERPRINT but has_attribute(FINGERPRINT) is false".to_string());
                ev!(ctx, "  !! {}", v.message);
                return Err(v);
            }
        }
        (Err(_), Verdict::Reject(_)) => ctx.st.inc("verdict.rejected"),
        (Ok(msg), Verdict::Reject(c)) => {
            // C02 allows an over-long buffer to be accepted as long as the excess is never interpreted:
            // the only defect is the excess and everything the library exposes is exactly what the
            // buffer cut to its declared length encodes
            let only_excess = c.len() == 1 && matches!(c[0], refcodec::Cause::Excess { .. });
            if only_excess && x.len() >= 20 {
                let declared = 20 + (((x[2] as usize) << 8) | x[3] as usize);
                if declared <= x.len() {
                    if let Verdict::Accept(v2) = refcodec::decode(&x[..declared]) {
                        if compare_view(&x[..declared], msg, &v2, "C10").is_ok() {
                            ctx.st.inc("probe.overlong_buffer_accepted_confined_to_declared_length");
                            return Ok(());
                        }
                    }
                }
            }
            // accepted although malformed: a C02 matter unless something unauthenticated is exposed
            let exposed: Vec<u16> = msg.iter_attributes().map(|a| a.get_type().value()).collect();
            let (all, _) = refcodec::walk(x, x.len());
            let (exp_idx, _) = refcodec::exposure(&all);
            let allowed: Vec<u16> = exp_idx.iter().map(|&i| all[i].ty).collect();
            if exposed != allowed {
                let v = Violation::new("C10", "exposure", "malformed_tail_accepted", format!("malformed tail accepted ({c:?}) and iteration yields {exposed:04x?} where the exposure rule allows {allowed:04x?}"));
                ev!(ctx, "  !! {}", v.message);
                return Err(v);
            }
            return Err(Violation::new("C02", "refuses_malformed", crate::pipeline::cause_site(&c[0]), format!("malformed buffer accepted: {c:?}")));
        }
        (Err(e), Verdict::Accept(_)) => {
            return Err(Violation::new("C02", "accepts_wellformed", "tail", format!("well-formed message refused: {e:?}")));
        }
    }
    Ok(())
}
