#!/usr/bin/env python3
"""Rewrites the generated tables of DESIGN.md: §15 (seeded changes, from seeded/*/meta.json via
seeded_table.py) and §16 (benign results, from the file given as argv[1], lines '<name>: silent ...')."""
import subprocess, sys, re, os
here=os.path.dirname(os.path.abspath(__file__)); root=os.path.join(here,'..')
p=os.path.join(root,'DESIGN.md'); s=open(p).read()
tab=subprocess.run([sys.executable, os.path.join(here,'seeded_table.py')],capture_output=True,text=True).stdout.strip()
a=s.index("| id | change (sub-agent's own title) |")
m=re.search(r"\n\d+ of \d+ caught\n", s[a:])
s=s[:a]+tab+"\n"+s[a+m.end():]
if len(sys.argv)>1:
    rows=[]
    for l in open(sys.argv[1]):
        l=l.strip()
        if ': ' in l and l.startswith('bn'):
            n,r=l.split(': ',1); rows.append((n,r))
    rows.sort()
    t="| benign change | result of its checks (quick tier, seed 1) |\n|---|---|\n"+"\n".join(f"| {n} | {r} |" for n,r in rows)+f"\n\n{sum(1 for _,r in rows if r.startswith('silent'))} of {len(rows)} silent\n"
    if "BENIGN_RESULTS_PLACEHOLDER" in s:
        s=s.replace("BENIGN_RESULTS_PLACEHOLDER","<!-- benign table -->\n"+t+"<!-- /benign table -->")
    else:
        s=re.sub(r"<!-- benign table -->.*?<!-- /benign table -->","<!-- benign table -->\n"+t.replace('\\','\\\\')+"<!-- /benign table -->",s,flags=re.S)
open(p,'w').write(s)
print("tables updated")
