#!/usr/bin/env python3
"""Prints the DESIGN.md §15 table from seeded/*/meta.json (written by tools/run_seeded*.sh)."""
import json,glob,os,re
rows=[]
for d in sorted(glob.glob(os.path.join(os.path.dirname(__file__),'..','seeded','*'))):
    i=os.path.basename(d)
    try: m=json.load(open(d+'/meta.json'))
    except Exception: continue
    title=open(d+'/notes.md').readline().strip().lstrip('# ').strip()
    prop=i.split('-')[0]
    c=m.get('checks',{}).get(prop,{})
    fv=c.get('first_violation','')
    mm=re.match(r'(?:violation )?(\S+ \[.*?\]):',fv)
    clause=mm.group(1) if mm else (fv[:60] if fv else '')
    if not clause and c.get('exit')==1: clause='(watchdog: run exceeded 20 s — hang)'
    rows.append((i,title,'yes' if c.get('detected') else ('NO' if c else 'not run'),clause))
print('| id | change (sub-agent\'s own title) | caught by `./check <prop> quick` | first clause [site] reported |')
print('|---|---|---|---|')
for r in rows: print(f'| {r[0]} | {r[1]} | {r[2]} | `{r[3]}` |')
print(f'\n{sum(1 for r in rows if r[2]=="yes")} of {len(rows)} caught')
