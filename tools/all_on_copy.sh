#!/bin/bash
# usage: tools/all_on_copy.sh <tier> <ids|all> <patch.diff | -R:<commit> ...>
# Builds the harness once against a scratch COPY of /repo (under /var/tmp) with the given patches
# applied and runs the quick (or thorough) check of every listed property against it, leaving
# /repo untouched.  Prints one line per property: id rc first-violation.
# Env: SCRATCH=<dir> (default /var/tmp/stunsim-scratch2) so several can run side by side.
TIER="$1"; IDS="$2"; shift 2
ROOT="$(cd "$(dirname "$0")/.." && pwd)"
[ "$IDS" = all ] && IDS=$(cat "$ROOT/built_checks.txt")
S=${SCRATCH:-/var/tmp/stunsim-scratch2}
mkdir -p $S/verif
rsync -a --delete --exclude target --exclude .git /repo/ $S/repo/
rsync -a --delete --exclude repo "$ROOT/sim/" $S/verif/sim/
ln -sfn $S/repo $S/verif/sim/repo
cp "$ROOT/known_findings.json" $S/verif/ 2>/dev/null
for p in "$@"; do
  case "$p" in
    -R:*) c=${p#-R:}; git -C /repo show "$c" | (cd $S/repo && patch -R -p1 -s) || { echo "cannot revert $c"; exit 3; } ;;
    *) p=$(readlink -f "$p"); (cd $S/repo && patch -p1 -s < "$p") || { echo "patch $p does not apply"; exit 3; } ;;
  esac
done
find $S/repo/stun-types/src $S/repo/stun-proto/src -name '*.rs' -exec touch {} +
cd $S/verif/sim && cargo build --release --offline > $S/build.log 2>&1 || { echo "HARNESS-ERROR: build failed"; tail -20 $S/build.log; exit 2; }
cd $S/verif; worst=0
for ID in $IDS; do
  VERIF_DIR=$S/verif ./target/release/stunsim check "$ID" "$TIER" > $S/out.$ID.log 2>&1; rc=$?
  [ $rc -gt $worst ] && worst=$rc
  printf "%-4s rc=%s %s\n" "$ID" "$rc" "$(grep -E '^  violation|HARNESS' $S/out.$ID.log | head -1 | cut -c1-220)"
done
exit $worst
