#!/bin/bash
# usage: tools/check_on_copy.sh <ID> <tier> <patch.diff | -R:<commit> ...>
# Runs a property's check against a scratch COPY of /repo (under /var/tmp) with the given patches
# applied (or commits reverted), leaving /repo untouched.  The copy and its build output are kept
# between calls for incremental builds; remove with: rm -rf /var/tmp/stunsim-scratch
ID="$1"; TIER="$2"; shift 2
S=/var/tmp/stunsim-scratch
mkdir -p $S/verif
rsync -a --delete --exclude target --exclude .git /repo/ $S/repo/
rsync -a --delete --exclude repo /verif/sim/ $S/verif/sim/
ln -sfn $S/repo $S/verif/sim/repo
cp /verif/known_findings.json $S/verif/ 2>/dev/null
for p in "$@"; do
  case "$p" in
    -R:*) c=${p#-R:}; git -C /repo show "$c" | (cd $S/repo && patch -R -p1 -s) || { echo "cannot revert $c"; exit 3; } ;;
    *) p=$(readlink -f "$p"); (cd $S/repo && patch -p1 -s < "$p") || { echo "patch $p does not apply"; exit 3; } ;;
  esac
done
# rsync keeps mtimes, which would make cargo believe an older build is still fresh
find $S/repo/stun-types/src $S/repo/stun-proto/src -name '*.rs' -exec touch {} +
cd $S/verif/sim && cargo build --release --offline > $S/build.log 2>&1 || { echo "HARNESS-ERROR: build failed"; tail -20 $S/build.log; exit 2; }
cd $S/verif && VERIF_DIR=$S/verif ./target/release/stunsim check "$ID" "$TIER" > $S/out.log 2>&1; rc=$?
echo "rc=$rc"; grep -E "^VIOLATION|^  violation|HARNESS|^OK |KNOWN" $S/out.log
exit $rc
