#!/bin/bash
# usage: tools/run_benign.sh [tier] [names...]   — every /verif/benign/<name>/patch.diff is a change to
# /repo under which every property still HOLDS; all checks must stay silent (rc=0) on it.
# Runs on a scratch copy of /repo (tools/all_on_copy.sh); /repo is not touched.
cd "$(dirname "$0")/.." || exit 2
TIER=${1:-quick}; shift
NAMES="$@"; [ -z "$NAMES" ] && NAMES=$(ls benign)
bad=0
for n in $NAMES; do
  ids=$(cat benign/$n/checks 2>/dev/null || echo all)
  out=$(SCRATCH=${SCRATCH:-/var/tmp/stunsim-benign} tools/all_on_copy.sh $TIER "$ids" benign/$n/patch.diff 2>&1); rc=$?
  if [ $rc -eq 0 ]; then echo "$n: silent (all rc=0)"; else echo "$n: ALARM/ERROR rc=$rc"; echo "$out" | grep -v "rc=0" | sed 's/^/    /'; bad=1; fi
done
rm -rf ${SCRATCH:-/var/tmp/stunsim-benign}
exit $bad
