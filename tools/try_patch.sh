#!/bin/sh
# usage: tools/try_patch.sh <patch.diff> <ID> [quick|thorough]
# Applies a change to /repo, runs the property's check, and undoes the change straight afterwards.
P="$1"; ID="$2"; TIER="${3:-quick}"
cd "$(dirname "$0")/.." || exit 2
git -C /repo diff --quiet || { echo "/repo is dirty, refusing"; exit 3; }
git -C /repo apply --check "$P" || { echo "patch does not apply"; exit 3; }
git -C /repo apply "$P"
OUT=$(mktemp)
./check "$ID" "$TIER" >"$OUT" 2>&1; rc=$?
git -C /repo apply -R "$P"
git -C /repo diff --quiet || echo "WARNING: /repo still dirty"
echo "rc=$rc"
grep -E "^VIOLATION|^  violation|HARNESS|^OK |KNOWN" "$OUT"
rm -f "$OUT"
exit $rc
