#!/bin/bash
# usage: tools/run_seeded.sh [ids...]      (default: every /verif/seeded/*)
# For each seeded change: apply to /repo, run the quick check of the property it breaks, undo,
# record the outcome in seeded/<id>/meta.json and print a summary table.
cd "$(dirname "$0")/.." || exit 2
IDS="$@"; [ -z "$IDS" ] && IDS=$(ls seeded)
for id in $IDS; do
  d="seeded/$id"; [ -f "$d/patch.diff" ] || continue
  prop=${id%%-*}
  git -C /repo diff --quiet || { echo "/repo dirty"; exit 3; }
  git -C /repo apply "$PWD/$d/patch.diff" || { echo "$id: patch does not apply"; continue; }
  out=$(./check "$prop" quick 2>&1); rc=$?
  git -C /repo apply -R "$PWD/$d/patch.diff"
  viol=$(echo "$out" | grep -E "^  violation" | head -1 | sed 's/^  violation //')
  wall=$(echo "$out" | grep -oE "wall=[0-9.]+s" | tail -1)
  python3 - "$d/meta.json" "$prop" "$rc" "$viol" <<'PY'
import json,sys
p,prop,rc,viol=sys.argv[1:5]
m=json.load(open(p))
m.setdefault("checks",{})[prop]={"cmd":f"./check {prop} quick","exit":int(rc),"detected":int(rc)==1,"first_violation":viol}
m["what_was_run"]=["git -C /repo apply seeded/<id>/patch.diff",f"./check {prop} quick","git -C /repo apply -R seeded/<id>/patch.diff"]
json.dump(m,open(p,"w"),indent=1)
PY
  printf "%-7s rc=%s %s\n" "$id" "$rc" "${viol:0:150}"
done
git -C /repo diff --quiet || echo "WARNING: /repo left dirty"
