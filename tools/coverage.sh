#!/bin/bash
# usage: tools/coverage.sh [runs-per-scenario]
# Reach measure: builds the harness with -C instrument-coverage on the nightly toolchain (outside
# /verif, under /var/tmp/stunsim-cov), runs every (scenario, profile) a little, and prints llvm-cov's
# per-file summary for /repo's sources plus the library lines never executed by any scenario.
# Diagnostic only: no check depends on it.  Removes its scratch directory afterwards.
N=${1:-3000}
C=/var/tmp/stunsim-cov
T=$(ls -d /root/.rustup/toolchains/nightly-x86_64-unknown-linux-gnu/lib/rustlib/x86_64-unknown-linux-gnu/bin)
mkdir -p $C/vd/evidence $C/vd/replays
cd "$(dirname "$0")/../sim" || exit 2
CARGO_NET_OFFLINE=true RUSTFLAGS="-C instrument-coverage" CARGO_TARGET_DIR=$C/target cargo +nightly build --release --offline >$C/build.log 2>&1 || { tail $C/build.log; exit 2; }
cp ../known_findings.json $C/vd/
i=0
for t in "agent balanced C05" "agent timing C06" "agent forgery C07" "agent balanced C20" "world hostile C05" "world forgery C07" "world calm C06" "wire baseline C02" "wire faults C02" "wire hostile C01" "wire bigbuf C01" "cut default C17" "crc default C09" "tamper default C04" "tailsplice default C10" "tcpstream random C14" "tcpstream sweep C14"; do
  i=$((i+1)); n=$N; case "$t" in crc*|tamper*) n=$((N/10));; wire\ bigbuf*) n=$((N/15));; esac
  VERIF_DIR=$C/vd LLVM_PROFILE_FILE=$C/p$i-%p.profraw $C/target/release/stunsim run $t $n >$C/run$i.log 2>&1 || echo "run failed: $t"
done
$T/llvm-profdata merge -sparse $C/*.profraw -o $C/all.profdata
$T/llvm-cov report $C/target/release/stunsim -instr-profile=$C/all.profdata --ignore-filename-regex='(\.cargo|rustc|rustlib|/verif/sim/src)' 2>/dev/null | sed 's/  */ /g' | cut -d' ' -f1-4,8-10
echo "--- library lines never executed:"
for f in stun-proto/src/agent.rs stun-types/src/message.rs stun-types/src/attribute/mod.rs; do
  echo "== $f"; $T/llvm-cov show $C/target/release/stunsim -instr-profile=$C/all.profdata /verif/sim/repo/$f 2>/dev/null | grep -E "^\s+[0-9]+\|\s+0\|" | cut -c1-110
done
rm -rf $C
