#!/bin/bash
# usage: tools/confirm_seeded.sh <PROP> <N>
# Independently confirms a sub-agent's change in its scratch worktree /tmp/wt-<PROP>:
#  (1) patch applies and compiles, existing suite passes with it, (2) demo fails with it,
#  (3) demo passes without it.  On success copies patch.diff/demo.rs/notes.md to
#  /verif/seeded/<PROP>-<N>/ and writes meta.json (the check results are added later).
P="$1"; N="$2"; WT="/tmp/wt-$P"; SRC="$WT/out/$N"; DST="/verif/seeded/$P-$N"
set -u
cd "$WT" || exit 2
git checkout -q -- . ; rm -f stun-proto/tests/demo.rs stun-types/tests/demo.rs
if grep -q "stun-types/tests/demo.rs" "$SRC/notes.md" && ! grep -q "stun-proto/tests/demo.rs" "$SRC/notes.md"; then CR=stun-types; else CR=stun-proto; fi
if grep -q "^use stun_proto" "$SRC/demo.rs"; then CR=stun-proto; elif grep -q "^use stun_types" "$SRC/demo.rs" && ! grep -q "stun_proto" "$SRC/demo.rs"; then CR=stun-types; fi
git apply --check "$SRC/patch.diff" || { echo "$P-$N: patch does not apply"; exit 1; }
git apply "$SRC/patch.diff"
SUITE=$(cargo test --workspace --offline 2>&1); SRC_RC=$?
SUITE_SUM=$(echo "$SUITE" | grep -E "^test result" | tr '\n' ' ')
mkdir -p $CR/tests; cp "$SRC/demo.rs" $CR/tests/demo.rs
DEMO_MUT=$(cargo test -p $CR --test demo --offline 2>&1); DM_RC=$?
git apply -R "$SRC/patch.diff"
DEMO_CLEAN=$(cargo test -p $CR --test demo --offline 2>&1); DC_RC=$?
rm -f $CR/tests/demo.rs; rmdir $CR/tests 2>/dev/null
git checkout -q -- .
echo "$P-$N: suite_rc=$SRC_RC demo_with_change_rc=$DM_RC demo_clean_rc=$DC_RC crate=$CR"
if [ $SRC_RC -eq 0 ] && [ $DM_RC -ne 0 ] && [ $DC_RC -eq 0 ]; then
  mkdir -p "$DST"; cp "$SRC/patch.diff" "$SRC/demo.rs" "$SRC/notes.md" "$DST/"
  python3 - "$P" "$N" "$CR" "$SUITE_SUM" "$DST" <<'PY'
import json,sys,re
p,n,cr,suite,dst=sys.argv[1:6]
notes=open(dst+"/notes.md").read()
m={"id":f"{p}-{n}","breaks_property":p,"demo_location":f"{cr}/tests/demo.rs",
   "confirmed":{"patch_applies_and_compiles":True,"existing_suite_passes_with_change":True,"existing_suite_summary":suite.strip(),
                "demo_fails_with_change":True,"demo_passes_without_change":True,
                "commands":["git apply patch.diff","cargo test --workspace --offline",f"cargo test -p {cr} --test demo --offline  (with change: fails)","git apply -R patch.diff",f"cargo test -p {cr} --test demo --offline  (without: passes)"],
                "where":"scratch git worktree of /repo under /tmp (removed afterwards)"},
   "needs_to_manifest":"see notes.md (written by the sub-agent that produced the change)",
   "checks":{}}
json.dump(m,open(dst+"/meta.json","w"),indent=1)
PY
  echo "$P-$N: CONFIRMED -> $DST"
else
  echo "$P-$N: NOT CONFIRMED"; echo "$DEMO_MUT" | tail -5; echo "$DEMO_CLEAN" | tail -5
fi
