#!/bin/bash
# usage: tools/run_seeded_copy.sh [tier] [ids...]   (default tier quick, default ids: every /verif/seeded/*)
# Like run_seeded.sh, but on a scratch COPY of /repo (under /var/tmp), so /repo is never touched and
# a background run that reads /repo is not disturbed.  Records the outcome in seeded/<id>/meta.json.
cd "$(dirname "$0")/.." || exit 2
TIER=${1:-quick}; shift
IDS="$@"; [ -z "$IDS" ] && IDS=$(ls seeded)
S=${SCRATCH:-/var/tmp/stunsim-seeded}
for id in $IDS; do
  d="seeded/$id"; [ -f "$d/patch.diff" ] || continue
  prop=${id%%-*}
  out=$(SCRATCH=$S tools/all_on_copy.sh $TIER $prop $d/patch.diff 2>&1); rc=$?
  viol=$(echo "$out" | grep -E "^$prop " | sed -E "s/^$prop +rc=[0-9]+ *//; s/^  violation //")
  python3 - "$d/meta.json" "$prop" "$rc" "$viol" "$TIER" <<'PY'
import json,sys
p,prop,rc,viol,tier=sys.argv[1:6]
m=json.load(open(p))
m.setdefault("checks",{})[prop]={"cmd":f"./check {prop} {tier}","exit":int(rc),"detected":int(rc)==1,"first_violation":viol.strip()}
m["what_was_run"]=["patch applied to a scratch copy of /repo (tools/all_on_copy.sh; equivalent to git -C /repo apply seeded/<id>/patch.diff)",f"./check {prop} {tier}","scratch copy removed"]
json.dump(m,open(p,"w"),indent=1)
PY
  printf "%-7s rc=%s %s\n" "$id" "$rc" "${viol:0:170}"
done
