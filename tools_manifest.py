#!/usr/bin/env python3
"""Regenerates /verif/MANIFEST.json from the table below (kept valid at all times)."""
import json, sys, os
here = os.path.dirname(os.path.abspath(__file__))

TECH = "deterministic simulation with fault injection: seeded search over schedules and fault sequences, checked against an executable reference model"
CHECKS = {
 # id: (level, technique, text, note, design_ref)
 "C05": ("exploration", TECH + " (transaction model; histories of agent calls under adversarial poll schedules and response faults)",
   "Seeded exploration of call histories (send/poll/handle_stun/cancel/cancel_retransmissions/configure_timeout, duplicate ids, forged, duplicate, late and unknown responses, stalls) on the real StunAgent, checked after every call against a transaction model: exactly-once completion, outstanding-set bookkeeping, refusal of duplicate ids, id reuse, drop of responses for non-outstanding ids, bounded liveness once driven at the announced wake-ups. Sampling, not proof.",
   "Trusted: the transaction model (sim/src/model_tx.rs), the reference codec used to judge signed responses, RustCrypto hash primitives. Assumes monotonic instants per agent.", "§4.1, §5 C05"),
 "C06": ("exploration", TECH + " (discrete-event clock; early/exact/late/repeated polls, stalls, clock jumps, reconfiguration)",
   "Seeded exploration of poll schedules x timeout configurations x concurrent transactions on the real StunAgent with a simulated clock; every WaitUntil value, every retransmission instant and count and every time-out is compared with the RFC 8489 schedule computed by the model, plus a model-free self-consistency clause (earlier poll => same instant, poll at the instant => event).",
   "Assumes whole-millisecond configure_timeout arguments in the stated ranges and monotonic instants; mid-schedule reconfiguration keeps the retransmission count (DESIGN §4.1).", "§4.1, §5 C06"),
 "C07": ("exploration", TECH + " (attacker node forging/replaying responses into live signed transactions; reference HMAC as judge)",
   "Seeded exploration of histories with forged, unsigned, wrong-key, bit-flipped, mixed and truncated-MAC responses x remote credentials unset/set/changed mid-transaction; the delivery decision is judged by an independent HMAC implementation and timing after a drop must be unchanged (self-consistency + model).",
   "Trusted: reference HMAC/key derivation over RustCrypto hash primitives. Where one integrity attribute is right and the other wrong the model follows the agent (the property is silent).", "§4.1, §5 C07"),
 "C15": ("exploration", TECH + " (histories over several source addresses incl. dropped traffic; exact set equality after every call)",
   "After every call of every explored history is_validated_peer is compared, for every address of the run's pool, with the model's set (grows only on IncomingStun / StunResponse from that very address; never on Drop or send; never shrinks).",
   "Same trusted base as C05.", "§4.1, §5 C15"),
 "C18": ("exploration", TECH + " (wire tap on every Transmit of every explored history)",
   "Every Transmit returned by send and poll in every explored history is compared byte for byte and address for address with what the application handed in (bytes taken from MessageBuilder::build before send); peer_address while outstanding; non-requests transmitted once and leave no transaction.",
   "Same trusted base as C05; message contents come from the harness generator (all attribute kinds, sealing variants, up to 60 KB).", "§4.1, §5 C18"),
 "C20": ("exploration", TECH + " (recorded history replayed on another instance, time-shifted, on another thread, and interleaved with unrelated agents)",
   "Every explored history is recorded call by call and replayed four ways on fresh agents; reply sequences must be equal element by element with reported instants shifted by exactly the same constant. Needs no model: the library is compared with itself.",
   "Thread variant is spawn-run-join (the library has no shared mutable state besides a tracing id counter).", "§5 C20"),
}
NA = {
 "C03": "builder->parser round trip is a pure function of the message description: no schedule, clock, party or fault in it (simulation would only be input generation under another name)",
 "C08": "per-attribute encode/decode exactness is a pure function of one attribute value; its only fault-facing part (no panic on malformed values) is covered under C01",
 "C11": "builder ordering rules are a deterministic, single-object, fault-free state machine; op-sequence enumeration against a model is model checking / property testing, not simulation",
 "C12": "equality of serialisation paths is a pure function of the value; nothing to schedule or fault",
 "C13": "XOR-MAPPED-ADDRESS is an algebraic identity over (address, transaction id); no schedule, clock or fault",
 "C16": "the policing verdict is a pure function of (message, supported, required); its only fault-facing part (no panic when policing a non-request) is covered under C01",
 "C19": "type-field and transaction-id encodings are finite bijections best decided by exhaustive enumeration, which is not seeded simulation",
}
PENDING = {  # claimed in DESIGN.md but check not built yet: listed as not applicable *for now* with that reason
}
def main():
    built = [l.strip() for l in open(os.path.join(here, "built_checks.txt")) if l.strip() and not l.startswith("#")]
    checks = []
    for pid in sorted(CHECKS):
        if pid not in built: continue
        level, tech, text, note, ref = CHECKS[pid]
        checks.append({
            "property_id": pid,
            "quick_cmd": f"./check {pid} quick",
            "thorough_cmd": f"./check {pid} thorough",
            "evidence_file": f"/verif/evidence/{pid}.json",
            "replay_cmd_template": "./check replay {path}",
            "engine": "stunsim",
            "level_claimed": {"category": level, "text": text, "design_ref": ref},
            "level_note": note,
            "technique": tech,
        })
    na = [{"property_id": k, "reason": v} for k, v in sorted(NA.items())]
    for pid in sorted(CHECKS):
        if pid not in built:
            na.append({"property_id": pid, "reason": "claimed in DESIGN.md; its simulation check is not built yet in this commit (no claim is made until it is)"})
    props = [json.loads(l)["id"] for l in open(os.path.join(here, "properties.jsonl"))]
    for pid in props:
        if pid not in CHECKS and pid not in NA:
            na.append({"property_id": pid, "reason": "claimed in DESIGN.md; its simulation check is not built yet in this commit (no claim is made until it is)"})
    na.sort(key=lambda x: x["property_id"])
    m = {
        "version": 1,
        "setup_cmd": "./setup.sh",
        "hooks": {
            "guard": "stun_proto_verif",
            "enable": "none needed: every seam the properties depend on (clock, transport, peer, caller schedule) is an API argument of the sans-IO library; the guard name is reserved and unused",
            "baseline_off_cmd": "cd /repo && cargo test --workspace --no-fail-fast --offline",
            "source_commits": [],
            "add_only": True,
        },
        "engines": [{"name": "stunsim", "path": "/verif/sim", "serves_properties": [c["property_id"] for c in checks],
                     "kind_free_text": "single-process deterministic simulator (Rust): seeded choice vector decides every operation, delay and fault; discrete-event clock; simulated network/attacker; reference models as oracles; shrinking; replay files"}],
        "checks": checks,
        "not_applicable": na,
        "notes": "See DESIGN.md. Exit codes: 0 held, 1 VIOLATION (with replay file), 2 harness error. known_findings.json lists repaired defects (status fixed, suppress nothing) and any recorded ones (status known).",
    }
    json.dump(m, open(os.path.join(here, "MANIFEST.json"), "w"), indent=1)
    print("MANIFEST.json:", len(checks), "checks,", len(na), "not applicable")
main()
