#!/usr/bin/env python3
"""Regenerates /verif/MANIFEST.json from the table below (kept valid at all times)."""
import json, sys, os
here = os.path.dirname(os.path.abspath(__file__))

TECH = "deterministic simulation with fault injection: seeded search over schedules and fault sequences, checked against an executable reference model"
CHECKS = {
 # id: (level, technique, text, note, design_ref)
 "C05": ("exploration", TECH + " (transaction model; histories of agent calls under adversarial poll schedules and response faults)",
   "Seeded exploration of call histories (send/poll/handle_stun/cancel/cancel_retransmissions/configure_timeout, duplicate ids, forged, duplicate, late and unknown responses, stalls) on the real StunAgent, checked after every call against a transaction model: exactly-once completion, outstanding-set bookkeeping (through the read-only and the mutable handle), refusal of duplicate ids (also with another method or at a later instant), id reuse, drop of responses for non-outstanding ids, bounded liveness once driven at the announced wake-ups. One run in 25 is a scale run (up to 40, sometimes 250-320 concurrent transactions, hundreds of peers, floods of 20-300 forged responses, a clock starting 2^32 ms or more from zero). Plus the `world` scenario: clients, a stund-like server, an attacker, faulty UDP links and framed TCP streams. Sampling, not proof.",
   "Trusted: the transaction model (sim/src/model_tx.rs), the reference codec used to judge signed responses, RustCrypto hash primitives. Assumes monotonic instants per agent. Between cancel() and the poll that reports it, whether the transaction still counts as outstanding (queries, id re-use, a late report) is left open, as no property states it.", "§4.1, §5 C05"),
 "C06": ("exploration", TECH + " (discrete-event clock; early/exact/late/repeated polls, stalls, clock jumps, reconfiguration)",
   "Seeded exploration of poll schedules x timeout configurations x concurrent transactions on the real StunAgent with a simulated clock; every WaitUntil value, every retransmission instant and count and every time-out is compared with the RFC 8489 schedule computed by the model, plus a model-free self-consistency clause (earlier poll => same instant, poll at the instant => event). Poll lateness includes powers of two of ns/us/ms (2^31..2^33 ms, 2^53 ns), sends happen at instants between polls, bursts of several hundred requests become due together, and exactly 2^8 / 2^16 (+-1) state-changing calls are placed between two adjacent polls. In one run of four, while nothing is due, some polls carry a stale clock sample (an instant up to 2 s earlier than the latest one handed in): the answer must be the same WaitUntil. In one run of five a third of the send/poll/handle_stun calls are made through a kept StunRequestMut handle (mut_agent()).",
   "Assumes whole-millisecond configure_timeout arguments in the stated ranges; instants are ordered except for the stale polls described (only issued while nothing is due, where clamping and non-clamping implementations agree); mid-schedule reconfiguration keeps the retransmission count (DESIGN §4.1).", "§4.1, §5 C06"),
 "C07": ("exploration", TECH + " (attacker node forging/replaying responses into live signed transactions; reference HMAC as judge)",
   "Seeded exploration of histories with forged, unsigned, wrong-key, bit-flipped, mixed and truncated-MAC responses x remote credentials unset/set/changed mid-transaction; the delivery decision is judged by an independent HMAC implementation (must drop: no or no correct integrity attribute, no remote credentials, or a wrong exposed MAC after the last correct one; must deliver: only the canonical response - from the request's destination, its method, exactly its algorithms at full length, FINGERPRINT iff the request had one, nothing hidden; anything else: either); and a twin agent is handed the same calls except the responses the agent under test dropped: the two must answer every other call identically, polls being compared per instant as sets after draining both (dropped responses neither complete, cancel nor delay anything, however many there are - floods of up to 300). Forged kinds include a correctly signed response with one bit altered anywhere before the MAC (header and attribute padding included).",
   "Trusted: reference HMAC/key derivation over RustCrypto hash primitives. The properties state when a response must not be delivered and one case in which it must; where they are silent (non-canonical but valid responses; a wrong earlier MAC under a correct later one) the model follows the agent. Reading reviewed by two rounds of white-box review (DESIGN §16).", "§4.1, §5 C07"),
 "C15": ("exploration", TECH + " (histories over several source addresses incl. dropped traffic; exact set equality after every call)",
   "After every call of every explored history is_validated_peer is compared, for every address of the run's pool, with the model's set (grows only on IncomingStun / StunResponse from that very address; never on Drop or send; never shrinks). Pools contain same-IP/other-port, IPv4-mapped IPv6 and link-local addresses differing only in scope id; scale runs use up to 330 peers (bursts of requests from hundreds of distinct sources; one scale run in three under this check).",
   "Same trusted base as C05.", "§4.1, §5 C15"),
 "C18": ("exploration", TECH + " (wire tap on every Transmit of every explored history)",
   "Every Transmit returned by send and poll in every explored history is compared byte for byte and address for address with what the application handed in (bytes taken from MessageBuilder::build before send); peer_address while outstanding (read-only and mutable handle); non-requests transmitted once and leave no transaction; agents built with and without the builder's fixed remote address; requests carrying registered-but-unimplemented attribute types (RFC 7982 counter, TURN, NAT discovery), embedded STUN messages, 2-5 KB and 60 KB payloads. Round 4: the builder is handed to send as built, cloned or after into_owned(); one description in five is assembled with operations the builder refuses interleaved (they must leave no trace); the agent's local address is a wildcard of either family, IPv6, IPv4-mapped or loopback in one run of six; in one run of five calls are made through a kept StunRequestMut handle whose peer_address() is read before and after the call.",
   "Same trusted base as C05; message contents come from the harness generator (all attribute kinds, sealing variants, up to 60 KB).", "§4.1, §5 C18"),
 "C01": ("exploration", TECH + " (faulty network / hostile peer delivering damaged traffic into a node that runs every decoding entry point; crash = panic, hang = watchdog)",
   "Seeded exploration: traffic from the library builder and from a foreign peer is damaged by 0..4 drawn wire faults (corruption, bursts, truncation, concatenation with the next message, structure-aware attribute splices, header damage; deliveries of 0..70000 bytes incl. the 16-bit boundary) and run through a receive pipeline that calls every public decoding entry point and every read-only operation (with and without a tracing subscriber) under catch_unwind, overflow checks and a per-call watchdog; deliveries are sometimes preceded by an intact copy or inspected only after the rest of the batch was parsed (decoder state carried between calls); supported/required sets of up to 80 types; strings up to 1100 multi-byte characters; 30..300-attribute messages. Weakest fit of the claimed properties: the quantifier is 'all byte strings'; what the simulator adds is a fault model producing what a deployed parser meets and a pipeline driving all entry points; reach is measured by probes.",
   "Sampling only. Trusted: the harness's own fault generator reaches the interesting inputs (measured: probes in the evidence file). Library built with overflow-checks and debug-assertions on.", "§5 C01"),
 "C02": ("exploration", TECH + " (receiver's verdict on fault-damaged traffic compared with a reference decoder; fault-free and fault-injecting profiles separate)",
   "Differential oracle on every simulated delivery: accept/reject, the named cause, and the decoded view (class, method, id, exposed attribute sequence, first-match lookups) must equal an independently written reference decoder's; over-long buffers (incl. an excess of exactly 64 KiB) must be refused or behave exactly as the buffer cut to its declared length; NotStun is accepted as a cause wherever the bytes present show it (top bits, a wrong cookie byte, a length that is not a multiple of 4); a parser that panics has given no verdict; whenever Truncated is answered the size reported as available must not exceed the buffer; the exposed sequence must be the same however the iterator is driven (nth/skip/step_by/last/count); Message::try_from agrees with from_bytes; lookups (raw, has, typed attribute::<T>()) return the first match in whatever order they are asked, also on a clone; one foreign message in six repeats an attribute type with a fresh value. Traffic comes from the library builder and a foreign peer (wire forms the builder cannot produce) through the fault table.",
   "Trusted: reference decoder (sim/src/refcodec.rs, ~300 lines, cross-checked on RFC 5769). When several defects coexist any of them may be named. Sampling, not proof.", "§4.2, §5 C02"),
 "C04": ("fault_enumeration", TECH + " (on-path tampering: all single-bit flips of each sampled sealed message; key mismatch between parties; reference HMAC as judge)",
   "Per sampled sealed message (library builder and foreign peer, all tails incl. truncated SHA-256, short/long-term keys over arbitrary UTF-8): builder's seal equals the reference MAC; validates under its key with a present-and-correct algorithm; EVERY single-bit flip from byte 0 to the end of the last exposed integrity attribute plus sampled byte substitutions is rejected by parser or validation; an Ok verdict is accepted only if a correct attribute of the reported algorithm lies after every wrong exposed one; SHA-256 attributes of illegal length carrying the right HMAC prefix never validate; six other keys (incl. near-identical: quoted, padded, case-toggled, the other credential kind with the same text 'user:realm:password') fail, each tried right after a successful validation under the right key; every emission path of the builder (write_into a recycled non-zero buffer, into_owned) yields a message that validates; missing integrity reported.",
   "Complete only relative to the sampled messages. Trusted: reference HMAC/key derivation over RustCrypto hash primitives. Keys differing only by trailing NUL bytes are the same HMAC key (RFC 2104) and are not counted as 'another key'. For a message carrying two exposed integrity attributes, damage to either must be noticed (reading stated in DESIGN §5 C04).", "§4.2, §5 C04"),
 "C09": ("fault_enumeration", TECH + " (link corruption: all single-bit flips, all bursts <=32 bits, all byte substitutions of each sampled short fingerprinted message; reference CRC as judge)",
   "Per sampled fingerprinted message: every emission path of the builder carries the reference CRC of its own bytes; every single-bit flip, every burst 2..32 bits at every offset (short messages; sampled for long), every byte substitution (short; sampled for long) is judged by the reference decoder and by the direct clause 'still ends in FINGERPRINT => rejected' (covers length-field damage, which the CRC cannot see); structured 32-bit error patterns on the CRC value and every aligned word (the XOR constant, all-ones, byte swap, CRC without length adjustment / final XOR); builders that attempted refused operations before add_fingerprint; one message in six is crafted (GF(2) solve) so that the receiver-side CRC or the value on the wire is 0, all-ones, 0x5354554e or its complement.",
   "Complete only relative to the sampled messages and the size bounds in the evidence file.", "§4.2, §5 C09"),
 "C10": ("exploration", TECH + " (foreign peer emitting every tail order; on-path attacker rewriting what follows the first integrity attribute)",
   "Every order/subset of {MI, MI-SHA256 (16..32 B), FP} after 0..4 ordinary attributes from a foreign peer, and library-built signed messages whose tail is rewritten in flight by an attacker: iteration (driven by next, nth, skip, step_by, last, count) and lookups must equal the reference exposure list, FINGERPRINT always exposed, the algorithm validation reports present in the message, exposed prefix unchanged by the rewrite or by bytes appended after the message; some messages are sized to the very end of the 16-bit length range (integrity attribute ending beyond offset 65535). Round 4: lookups repeated in descending and alternating type order on the same Message and on a clone; typed lookups attribute::<T>() judged against T::from_raw of the first exposed attribute; for accepted requests the policing verdict (check_attribute_types) may depend on exposed attributes only.",
   "Trusted: reference exposure rule (sim/src/refcodec.rs::exposure), written from the property text.", "§4.2, §5 C10"),
 "C14": ("exploration", TECH + " (byte-stream segmentation, push/pull interleaving and connection cut against a frame model; full sweep of short streams)",
   "The real TcpBuffer is fed frame sequences cut into drawn segments with drawn push/pull interleavings and optional connection cut; every pull is compared with a frame model (VecDeque); 1..3 connections per run (previous buffer dropped, possibly with unread bytes); payloads include real STUN messages and near-misses. Plus, per drawn short stream, all 2^(n-1) segmentations x 2 drain patterns; plus one long-lived connection per quick run (8 per thorough run) through which more than 2^32 bytes pass. Zero-length pushes before/after a chunk in one run of three.",
   "Trusted: the 15-line frame model. The sweep is exhaustive only for streams <= 12 bytes / 3 frames.", "§4.3, §5 C14"),
 "C17": ("fault_enumeration", TECH + " (connection cut / short read at every byte of each sampled message; header-delimited reassembly over a segmented stream)",
   "Per sampled well-formed message (20 B .. 65552 B): EVERY cut point must answer Truncated{expected, actual} with the exact sizes; header decoder vs full parser on all 160 single-bit header variants (on fewer than 20 bytes the header decoder must merely not accept), each variant judged against the full parser given the whole buffer and given the 20-byte prefix alone; the header decoder alone on 160 single-bit neighbours back to back; a stalled stream asking 40 times about the same prefix; reassembly of 1..4 messages from a randomly segmented stream using only the header decoder and the reported size; a tracing subscriber is installed in one run of eight.",
   "Complete only relative to the sampled messages.", "§5 C17"),
 "C20": ("exploration", TECH + " (recorded history replayed on another instance, time-shifted, on another thread, and interleaved with unrelated agents)",
   "Every explored history is recorded call by call and replayed five ways on fresh agents (other instance, time-shifted, other thread, interleaved with unrelated agents, anchored in the process's real past); reply sequences must be equal element by element with reported instants shifted by exactly the same constant. Plus two model-based clauses for the last sentence of the property: a send while others are outstanding is answered with its own transmission, and a WaitUntil that disagrees with the model is a leak exactly when it is some transaction's interval counted from an instant handed to a call that was not about that transaction.",
   "Thread variant is spawn-run-join (the library has no shared mutable state besides a tracing id counter).", "§5 C20"),
}
NA = {
 "C03": "builder->parser round trip is a pure function of the message description: no schedule, clock, party or fault in it (simulation would only be input generation under another name)",
 "C08": "per-attribute encode/decode exactness is a pure function of one attribute value; its only fault-facing part (no panic on malformed values) is covered under C01",
 "C11": "builder ordering rules are a deterministic, single-object, fault-free state machine; op-sequence enumeration against a model is model checking / property testing, not simulation",
 "C12": "equality of serialisation paths is a pure function of the value; nothing to schedule or fault",
 "C13": "XOR-MAPPED-ADDRESS is an algebraic identity over (address, transaction id); no schedule, clock or fault",
 "C16": "the policing verdict is a pure function of (message, supported, required); its only fault-facing part (no panic when policing a non-request) is covered under C01",
 "C19": "type-field and transaction-id encodings are finite bijections best decided by exhaustive enumeration, which is not seeded simulation",
}
PENDING = {  # claimed in DESIGN.md but check not built yet: listed as not applicable *for now* with that reason
}
def main():
    built = [l.strip() for l in open(os.path.join(here, "built_checks.txt")) if l.strip() and not l.startswith("#")]
    checks = []
    for pid in sorted(CHECKS):
        if pid not in built: continue
        level, tech, text, note, ref = CHECKS[pid]
        checks.append({
            "property_id": pid,
            "quick_cmd": f"./check {pid} quick",
            "thorough_cmd": f"./check {pid} thorough",
            "evidence_file": f"/verif/evidence/{pid}.json",
            "replay_cmd_template": "./check replay {path}",
            "engine": "stunsim",
            "level_claimed": {"category": level, "text": text, "design_ref": ref},
            "level_note": note,
            "technique": tech,
        })
    na = [{"property_id": k, "reason": v} for k, v in sorted(NA.items())]
    for pid in sorted(CHECKS):
        if pid not in built:
            na.append({"property_id": pid, "reason": "claimed in DESIGN.md; its simulation check is not built yet in this commit (no claim is made until it is)"})
    props = [json.loads(l)["id"] for l in open(os.path.join(here, "properties.jsonl"))]
    for pid in props:
        if pid not in CHECKS and pid not in NA:
            na.append({"property_id": pid, "reason": "claimed in DESIGN.md; its simulation check is not built yet in this commit (no claim is made until it is)"})
    na.sort(key=lambda x: x["property_id"])
    m = {
        "version": 1,
        "setup_cmd": "./setup.sh",
        "hooks": {
            "guard": "stun_proto_verif",
            "enable": "none needed: every seam the properties depend on (clock, transport, peer, caller schedule) is an API argument of the sans-IO library; the guard name is reserved and unused",
            "baseline_off_cmd": "cd /repo && cargo test --workspace --no-fail-fast --offline",
            "source_commits": [],
            "add_only": True,
        },
        "engines": [{"name": "stunsim", "path": "/verif/sim", "serves_properties": [c["property_id"] for c in checks],
                     "kind_free_text": "single-process deterministic simulator (Rust): seeded choice vector decides every operation, delay and fault; discrete-event clock; simulated network/attacker; reference models as oracles; shrinking; replay files"}],
        "checks": checks,
        "not_applicable": na,
        "notes": "See DESIGN.md. Exit codes: 0 held, 1 VIOLATION (with replay file), 2 harness error. known_findings.json lists repaired defects (status fixed, suppress nothing) and any recorded ones (status known).",
    }
    json.dump(m, open(os.path.join(here, "MANIFEST.json"), "w"), indent=1)
    print("MANIFEST.json:", len(checks), "checks,", len(na), "not applicable")
main()
