#!/bin/sh
# MANIFEST.setup_cmd: build the harness offline from files on disk, then prove determinism quickly.
cd "$(dirname "$0")" || exit 2
VERIF_DIR="$(pwd)"; export VERIF_DIR
CARGO_NET_OFFLINE=true; export CARGO_NET_OFFLINE
mkdir -p target replays evidence
rm -f target/repo.hash
(cd sim && cargo build --release --offline) || { echo "HARNESS-ERROR: build failed" >&2; exit 2; }
# known-answer tests of the reference codec (CRC-32, HMAC, RFC 5769 short- and long-term vectors, exposure rule)
(cd sim && cargo test --release --offline -q) || { echo "HARNESS-ERROR: reference codec self-tests failed" >&2; exit 2; }
./target/release/stunsim selftest determinism --fast || exit 2
